"""C17 - constraints, parameter setters and priors: bounds, bijection, round trips.

Sub-checks (all cases are JSON dicts; module recipes are named, values are generated fractions q in (0,1) that are
mapped into the bounds of the parameter at run time, so every value is in-bounds *by construction*):

* constraint.transform   Interval/GreaterThan/LessThan/Positive x scalar|tensor bounds x the transform choices the
                         constructors allow x raw values over the whole double range: closed containment, finiteness,
                         monotonicity, inverse o transform (|raw|<=10), transform o inverse (open interval), initial_value
* setter.roundtrip       every (module, property) pair discovered from the registry: in-bounds assignment (float, 0-d,
                         full, broadcast shapes, batch) reads back; out-of-bounds raises RuntimeError and changes nothing;
                         initialize(raw_..=nan) rejected; initialize(raw_..=<float>) as documented
* history.bounds         generated operation lists over composite models: invariant "every constrained parameter reads
                         back finite and inside its closed bounds", assignments read back, untouched parameters unchanged
* prior.log_prob         every prior class vs scipy.stats / docstring formula / numerical normalisation, `transform=`
* prior.closures         every `*_prior` constructor argument of every registry class: closure returns the constrained
                         value, the prior term is prior.log_prob(value), setting closure stores, sample_from_prior stores
                         exactly prior.sample() under the same seed (or refuses as documented)
* prior.mll_term         ExactMarginalLogLikelihood with priors - without priors = sum of reference log densities / n
"""
from __future__ import annotations

import inspect
import math

import numpy as np
import scipy.integrate
import scipy.special
import scipy.stats
import torch
from hypothesis import strategies as st

import gpytorch
from gpytorch import constraints as C
from gpytorch import kernels as K
from gpytorch import likelihoods as L
from gpytorch import means as M
from gpytorch import priors as P
from gpytorch.likelihoods import noise_models as NM
from gpytorch.priors.wishart_prior import InverseWishartPrior, WishartPrior

from pbt.core import Ctx, PropertySpec, Subcheck, innermost_frame, innermost_repo_frame

EPS = 2.220446049250313e-16
INF = math.inf


# =====================================================================================================
# helpers
# =====================================================================================================
def _target(value: float, label: str):
    """hypothesis.target, silently skipped when run() is called outside a Hypothesis test (replay)."""
    import hypothesis
    from hypothesis.errors import InvalidArgument

    try:
        hypothesis.target(float(value), label=label)
    except InvalidArgument:
        pass


def _np(t):
    return t.detach().cpu().numpy().astype(np.float64)


def expect_raises(ctx: Ctx, name: str, fn, exc=RuntimeError, match: str = "", cls=None) -> bool:
    """The documentation says `fn` is refused with `exc` (message containing `match`)."""
    ctx.comparisons += 1
    c = ctx.cls if cls is None else cls
    try:
        fn()
    except exc as e:  # noqa: BLE001
        if match in str(e):
            return True
        ctx.fail(name, "exception", f"{type(e).__name__} raised but without '{match}': {str(e)[:200]}", c)
        return False
    except Exception as e:  # noqa: BLE001
        where = innermost_repo_frame(e.__traceback__) or innermost_frame(e.__traceback__)
        ctx.fail(name, "exception", f"expected {exc.__name__}('{match}'), got {type(e).__name__}: {str(e)[:200]}",
                 f"{c}|{type(e).__name__}@{where}")
        return False
    ctx.fail(name, "invariant", f"no exception; expected {exc.__name__}('{match}')", c)
    return False


def inb(lo, hi, q):
    """Map q in (0,1) into the open interval (lo, hi) (numpy, elementwise; infinite bounds allowed)."""
    lo, hi, q = np.broadcast_arrays(np.asarray(lo, float), np.asarray(hi, float), np.asarray(q, float))
    out = np.empty(q.shape)
    both = np.isfinite(lo) & np.isfinite(hi)
    onlylo = np.isfinite(lo) & ~np.isfinite(hi)
    onlyhi = ~np.isfinite(lo) & np.isfinite(hi)
    none = ~np.isfinite(lo) & ~np.isfinite(hi)
    with np.errstate(invalid="ignore", over="ignore"):
        out[both] = (lo + q * (hi - lo))[both]
        out[onlylo] = (lo + 10.0 ** (-4 + 8 * q))[onlylo]
        out[onlyhi] = (hi - 10.0 ** (-4 + 8 * q))[onlyhi]
        out[none] = ((q - 0.5) * 20)[none]
    # guard against rounding onto a bound
    out = np.where(both, np.minimum(np.maximum(out, np.nextafter(lo, INF)), np.nextafter(hi, -INF)), out)
    return out


def cyc(vals, n):
    vals = list(vals)
    return np.array([vals[i % len(vals)] for i in range(n)], dtype=float)


Q = st.floats(min_value=0.001, max_value=0.999, allow_nan=False)
QS = st.lists(Q, min_size=1, max_size=6)
LAT = st.integers(-12, 12).map(lambda i: i / 4.0)
SEED = st.integers(0, 2**31 - 1)

# =====================================================================================================
# 1. constraints
# =====================================================================================================
TF = {
    "default": {},
    "reg_sigmoid": dict(transform=torch.sigmoid, inv_transform=None),  # inverse looked up in TRANSFORM_REGISTRY
    "reg_softplus": dict(transform=torch.nn.functional.softplus, inv_transform=None),
    "reg_exp": dict(transform=torch.exp, inv_transform=None),
    "exp_log": dict(transform=torch.exp, inv_transform=torch.log),
    "none": dict(transform=None),  # not enforced: identity
}


def _base_of(cls, tf):
    if tf == "none":
        return "none"
    if tf in ("reg_exp", "exp_log"):
        return "exp"
    if tf == "reg_softplus":
        return "softplus"
    if tf == "reg_sigmoid":
        return "sigmoid"
    return "sigmoid" if cls == "Interval" else "softplus"


def _bound_arg(v):
    return torch.tensor(v, dtype=torch.float64) if isinstance(v, list) else v


def make_constraint(cls, tf, lower, upper, initial_value=None):
    kw = dict(TF[tf])
    if initial_value is not None:
        kw["initial_value"] = initial_value
    if cls == "Interval":
        return C.Interval(_bound_arg(lower), _bound_arg(upper), **kw)
    if cls == "GreaterThan":
        return C.GreaterThan(_bound_arg(lower), **kw)
    if cls == "LessThan":
        return C.LessThan(_bound_arg(upper), **kw)
    if cls == "Positive":
        return C.Positive(**kw)
    raise KeyError(cls)


class _Holder(gpytorch.Module):
    """A module with one raw parameter (used to observe register_constraint / initial_value)."""

    def __init__(self, shape):
        super().__init__()
        self.register_parameter("raw_p", torch.nn.Parameter(torch.zeros(shape)))


def _slope(base, cls, raw, lo, hi):
    """d transform / d raw of the documented map (used only to scale the round-trip tolerance)."""
    if base == "sigmoid":
        s = scipy.special.expit(raw)
        return s * (1 - s) * (hi - lo)
    sign = -1.0 if cls == "LessThan" else 1.0
    if base == "softplus":
        return scipy.special.expit(sign * raw)
    if base == "exp":
        return np.exp(sign * raw)
    return np.ones_like(raw)


def run_constraint(case, ctx: Ctx):
    cls, tf = case["cls"], case["tf"]
    lower, upper = case.get("lower"), case.get("upper")
    tensor_bounds = isinstance(lower, list) or isinstance(upper, list)
    base = _base_of(cls, tf)
    ctx.cls = f"{cls}|{tf}|{'tensor' if tensor_bounds else 'scalar'}"
    lo = np.asarray(0.0 if cls == "Positive" else (-INF if lower is None else lower), float)
    hi = np.asarray(INF if upper is None else upper, float)
    bshape = np.broadcast_shapes(lo.shape, hi.shape)
    lo_b, hi_b = np.broadcast_to(lo, bshape), np.broadcast_to(hi, bshape)
    fin = [abs(float(v)) for v in list(lo.reshape(-1)) + list(hi.reshape(-1)) if math.isfinite(v)]
    scale = max([1.0] + fin)

    init_q = case.get("init")
    v0 = None
    if init_q is not None:
        v0 = inb(lo_b, hi_b, init_q)
    with ctx.observing("construct"):
        c = make_constraint(cls, tf, lower, upper,
                            None if v0 is None else (torch.tensor(v0) if v0.ndim else float(v0)))
        got_lo, got_hi = _np(c.lower_bound), _np(c.upper_bound)
        enforced = bool(c.enforced)
    ctx.check("bounds.stored", np.array_equal(np.broadcast_to(got_lo, bshape), lo_b)
              and np.array_equal(np.broadcast_to(got_hi, bshape), hi_b), f"stored bounds {got_lo} {got_hi}, given {lo} {hi}")
    ctx.check("enforced.flag", enforced == (tf != "none"), f"enforced={enforced} for transform choice {tf}")

    raws = np.array(sorted(case["raws"]), float)
    m = len(raws)
    r_np = raws.reshape((m,) + (1,) * len(bshape)) if tensor_bounds else raws
    full_shape = (m,) + tuple(bshape) if tensor_bounds else (m,)
    R = np.broadcast_to(r_np, full_shape)
    with ctx.observing("transform"):
        t = c.transform(torch.tensor(r_np))
        t_np = _np(t)
        chk_raw = c.check_raw(torch.tensor(r_np))
        chk = c.check(t)
    maxabs = float(np.abs(raws).max())
    _target(math.log10(1.0 + maxabs), "log10_max_abs_raw")
    ctx.label(f"cls={cls}", f"tf={tf}", f"bounds={'tensor' if tensor_bounds else 'scalar'}",
              "raw=" + ("huge" if maxabs > 1e3 else "sat" if maxabs > 30 else "mid"))
    ctx.set_nontrivial(maxabs > 30 or tensor_bounds)

    if base == "none":
        ctx.check("unenforced.identity", t_np.shape == r_np.shape and np.array_equal(t_np, r_np),
                  "transform is not the identity although transform=None")
        return
    if not ctx.check("transform.shape", tuple(t_np.shape) == full_shape, f"shape {t_np.shape}, expected {full_shape}", kind="shape"):
        return

    # the property: closed containment and finiteness for every finite raw value.  With transform=torch.exp the value
    # overflows to +-inf for |raw| > 709 (inside the closed extended interval); finiteness is then not demanded.
    need_finite = np.ones(full_shape, bool) if base != "exp" else (np.abs(R) <= 700)
    ctx.check("contain.finite", bool(np.isfinite(t_np[need_finite]).all()),
              f"non-finite constrained value for finite raw: raw={R[need_finite][~np.isfinite(t_np[need_finite])][:3]}")
    L_, H_ = np.broadcast_to(lo_b, full_shape), np.broadcast_to(hi_b, full_shape)
    # closed containment is asserted exactly; an excess within the closed-form tolerance (rounding of lower + s * (upper - lower)
    # at saturation) is reported under its own assertion name so that it cannot hide a real containment failure
    with np.errstate(invalid="ignore"):
        tol_lo = np.where(np.isfinite(L_), 1e-9 * np.abs(L_) + 1e-11 * scale, 0.0)
        tol_hi = np.where(np.isfinite(H_), 1e-9 * np.abs(H_) + 1e-11 * scale, 0.0)
        bad_lo, gross_lo = ~(t_np >= L_), ~(t_np >= L_ - tol_lo)
        bad_hi, gross_hi = ~(t_np <= H_), ~(t_np <= H_ + tol_hi)
    ctx.check("contain.lower", not gross_lo.any(), f"value below the lower bound: raw={R[gross_lo][:3]} value={t_np[gross_lo][:3]} lower={L_[gross_lo][:3]}")
    ctx.check("contain.upper", not gross_hi.any(), f"value above the upper bound: raw={R[gross_hi][:3]} value={t_np[gross_hi][:3]} upper={H_[gross_hi][:3]}")
    only_rounding = not gross_lo.any() and not gross_hi.any() and (bad_lo.any() or bad_hi.any())
    if only_rounding:
        b_ = bad_lo | bad_hi
        ctx.check("contain.rounding", False, f"saturated value leaves the closed interval by rounding: raw={R[b_][:3]} value={t_np[b_][:3]!r} "
                  f"bounds=[{L_[b_][:3]!r}, {H_[b_][:3]!r}]; check_raw(raw)={bool(chk_raw)}")
    else:
        ctx.check("check_raw.finite_raw", bool(chk_raw), f"check_raw refuses finite raw values {raws[:4]}")
        if bool(np.isfinite(t_np).all()):
            ctx.check("check.transformed", bool(chk), "check(transform(raw)) is False")

    # monotone (raws are sorted).  Slack: torch's softplus switches to the identity above its threshold 20 where
    # log1p(exp(20)) - 20 = 2.06e-9, i.e. a 1e-10 relative step down inside the dependency; the closed-form tolerance of
    # DESIGN 1.4 (rtol 1e-9, atol 1e-11*scale) covers it and still exposes any sign slip.
    if m >= 2:
        a, b = t_np[:-1], t_np[1:]
        with np.errstate(invalid="ignore"):
            slack = 1e-9 * np.where(np.isfinite(a), np.abs(a), 0.0) + 1e-11 * scale
            bad = ~((b >= a - slack) | (a == b))
        ctx.check("monotone", not bad.any(), f"not monotone: raws={raws} values={t_np.reshape(m, -1)[:, 0]}")
        # strictly increasing on the interior (needed for a bijection)
        dr = np.diff(raws)
        for j in range(m - 1):
            if abs(raws[j]) <= 10 and abs(raws[j + 1]) <= 10 and dr[j] >= 1e-3:
                sl = np.minimum(_slope(base, cls, raws[j], lo_b, hi_b), _slope(base, cls, raws[j + 1], lo_b, hi_b))
                ok = (t_np[j + 1] > t_np[j]) | (sl * dr[j] < 1e3 * EPS * scale)
                ctx.check("monotone.strict_interior", bool(np.all(ok)),
                          f"not increasing between raw={raws[j]} and {raws[j + 1]}: {t_np[j]} -> {t_np[j + 1]}")

    # inverse o transform on the interior (|raw| <= 10).  Tolerance: 1e-9 (DESIGN C17) plus the unavoidable
    # amplification of the rounding of the constrained value (eps * magnitude) by 1/slope of the map.
    # Towards a finite lower bound the interior extends as far as the constrained value can still be told from the bound: with
    # lower = 0 (lengthscales, noises, ...) that is the whole range down to raw = -700 (value ~ 1e-304 * width), and a value of 1e-20 is
    # an interior value like any other.  Points whose offset from the bound is lost to the rounding of lower + offset are skipped.
    has_lo = bool(np.isfinite(lo_b).all())
    mid = (raws >= (-700.0 if has_lo else -10.0)) & (raws <= 10)
    if mid.any():
        idx = np.nonzero(mid)[0]
        Rm = R[idx]
        tm = t_np[idx]
        Lm = np.broadcast_to(lo_b, Rm.shape) if has_lo else np.zeros(Rm.shape)
        deep = Rm < -10
        with np.errstate(invalid="ignore"):
            resolvable = ~deep | ((tm - Lm) > 1e4 * EPS * np.abs(Lm))
        with ctx.observing("inverse_transform"):
            back = _np(c.inverse_transform(t[idx]))
        sl = np.broadcast_to(_slope(base, cls, Rm, lo_b, hi_b), Rm.shape)
        mag = np.abs(tm) + np.where(deep, np.abs(Lm), scale)
        with np.errstate(divide="ignore", over="ignore", invalid="ignore"):
            # (no floor on the slope: bounds of magnitude 1e-293 are legitimate, an underflowed slope makes the tolerance infinite)
            tol = 1e-9 * np.maximum(1.0, np.abs(Rm)) + np.where(sl > 0, 64 * EPS * mag / np.where(sl > 0, sl, 1.0), np.inf)
        err = np.abs(back - Rm)
        bad = ~(err <= tol) & resolvable
        ctx.check("inverse_of_transform", not bad.any(),
                  f"inverse_transform(transform(raw)) != raw: raw={Rm[bad][:3]} got={back[bad][:3]} tol={tol[bad][:3]}", kind="value")
        if (deep & resolvable).any():
            ctx.label("inverse.deep_interior")

    # transform o inverse on the open interval
    qs = np.array(case["qs"], float)
    v = inb(lo_b[None, ...], hi_b[None, ...], qs.reshape((len(qs),) + (1,) * len(bshape)))
    with ctx.observing("transform_of_inverse"):
        rv = c.inverse_transform(torch.tensor(v))
        tv = _np(c.transform(rv))
    ctx.check("inverse.finite", bool(np.isfinite(_np(rv)).all()), f"inverse_transform of an interior value is not finite: v={v.reshape(-1)[:3]}")
    ctx.close("transform_of_inverse", tv, v, rtol=1e-9, atol=1e-11, scale=scale)

    # initial_value
    with ctx.observing("initial_value"):
        iv = c.initial_value
    if v0 is None:
        ctx.check("initial_value.none", iv is None, f"initial_value={iv} although none was given")
    else:
        if ctx.check("initial_value.set", iv is not None, "initial_value is None although one was given"):
            with ctx.observing("initial_value.module"):
                h = _Holder(tuple(bshape))
                h.register_constraint("raw_p", c)
                got = _np(c.transform(h.raw_p))
                got_iv = _np(c.transform(iv))
            ctx.close("initial_value.transform", got_iv, v0, rtol=1e-9, atol=1e-11, scale=scale)
            ctx.close("initial_value.registered_parameter", got, v0, rtol=1e-9, atol=1e-11, scale=scale)


RAW = st.one_of(
    st.floats(allow_nan=False, allow_infinity=False),
    st.floats(min_value=-40, max_value=40),
    st.floats(min_value=-700, max_value=-30),
    st.sampled_from([0.0, -0.5, 0.5, 3.0, -3.0, 10.0, -10.0, 19.999, 20.0, 20.000000001, -20.0, 36.7, 37.0, -37.0, 40.0, -40.0,
                     709.0, 710.0, -709.0, -710.0, 745.0, -745.2, 800.0, -800.0, 1e30, -1e30, 1.7e308, -1.7e308, 5e-324, -5e-324]),
)
_BOUND = st.one_of(LAT, st.floats(min_value=-1000, max_value=1000), st.sampled_from([0.0, 1e-4, 1e-6, 100.0, -100.0]))
_WIDTH = st.one_of(st.sampled_from([1e-3, 0.25, 1.0, 2.0, 10.0, 1e3]), st.floats(min_value=1e-3, max_value=1e3))


@st.composite
def constraint_cases(draw):
    cls = draw(st.sampled_from(["Interval", "Interval", "GreaterThan", "LessThan", "Positive"]))
    tensor = cls != "Positive" and draw(st.booleans())
    k = draw(st.integers(2, 3)) if tensor else 1
    lows = [draw(_BOUND) for _ in range(k)]
    widths = [draw(_WIDTH) for _ in range(k)]
    case = {"cls": cls}
    if cls == "Interval":
        form = draw(st.sampled_from(["both", "lower", "upper"])) if tensor else "scalar"
        if form == "scalar":
            case["lower"], case["upper"] = lows[0], lows[0] + widths[0]
        elif form == "both":
            case["lower"], case["upper"] = lows, [a + w for a, w in zip(lows, widths)]
        elif form == "lower":
            case["lower"], case["upper"] = lows, max(lows) + widths[0]
        else:
            case["lower"], case["upper"] = min(lows) - widths[0], lows
        case["tf"] = draw(st.sampled_from(["default", "default", "default", "reg_sigmoid", "none"]))
    else:
        if cls == "GreaterThan":
            case["lower"] = lows if tensor else lows[0]
        elif cls == "LessThan":
            case["upper"] = lows if tensor else lows[0]
        case["tf"] = draw(st.sampled_from(["default", "default", "default", "reg_softplus", "reg_exp", "exp_log", "none"]))
    case["raws"] = draw(st.lists(RAW, min_size=2, max_size=6))
    case["qs"] = draw(st.lists(Q, min_size=1, max_size=3))
    case["init"] = draw(st.one_of(st.none(), Q))
    return case


# =====================================================================================================
# 2. registry of constructible modules (kernels, likelihoods, means, noise models)
# =====================================================================================================
def _B(b):
    return torch.Size(b)


# name -> (class, builder(B, **extra constructor arguments), supports a batch shape)
RECIPES = {
    "RBF": (K.RBFKernel, lambda B, **x: K.RBFKernel(ard_num_dims=2, batch_shape=B, **x), True),
    "Matern": (K.MaternKernel, lambda B, **x: K.MaternKernel(nu=1.5, batch_shape=B, **x), True),
    "RQ": (K.RQKernel, lambda B, **x: K.RQKernel(batch_shape=B, **x), True),
    "Periodic": (K.PeriodicKernel, lambda B, **x: K.PeriodicKernel(ard_num_dims=2, batch_shape=B, **x), True),
    "Cosine": (K.CosineKernel, lambda B, **x: K.CosineKernel(batch_shape=B, **x), True),
    "Linear": (K.LinearKernel, lambda B, **x: K.LinearKernel(batch_shape=B, **x), True),
    "LinearARD": (K.LinearKernel, lambda B, **x: K.LinearKernel(ard_num_dims=3, batch_shape=B, **x), True),
    "Poly": (K.PolynomialKernel, lambda B, **x: K.PolynomialKernel(power=2, batch_shape=B, **x), True),
    "PolyGrad": (K.PolynomialKernelGrad, lambda B, **x: K.PolynomialKernelGrad(power=2, batch_shape=B, **x), True),
    "Const": (K.ConstantKernel, lambda B, **x: K.ConstantKernel(batch_shape=B, **x), True),
    "Scale": (K.ScaleKernel, lambda B, **x: K.ScaleKernel(K.RBFKernel(batch_shape=B), batch_shape=B, **x), True),
    "SM": (K.SpectralMixtureKernel, lambda B, **x: K.SpectralMixtureKernel(num_mixtures=2, ard_num_dims=3, batch_shape=B, **x), True),
    "SD": (K.SpectralDeltaKernel, lambda B, **x: K.SpectralDeltaKernel(num_dims=2, num_deltas=3, batch_shape=B, **x), True),
    "Arc": (K.ArcKernel, lambda B, **x: K.ArcKernel(K.RBFKernel(batch_shape=B), ard_num_dims=2, batch_shape=B, **x), True),
    "Cyl": (K.CylindricalKernel, lambda B, **x: K.CylindricalKernel(3, K.RBFKernel(batch_shape=B), batch_shape=B, **x), True),
    "Hamming": (K.HammingIMQKernel, lambda B, **x: K.HammingIMQKernel(vocab_size=3, batch_shape=B, **x), True),
    "Index": (K.IndexKernel, lambda B, **x: K.IndexKernel(num_tasks=3, rank=1, batch_shape=B, **x), True),
    "NG": (K.NewtonGirardAdditiveKernel, lambda B, **x: K.NewtonGirardAdditiveKernel(K.RBFKernel(batch_shape=B), 2, batch_shape=B, **x), True),
    "PP": (K.PiecewisePolynomialKernel, lambda B, **x: K.PiecewisePolynomialKernel(batch_shape=B, **x), True),
    "RBFGrad": (K.RBFKernelGrad, lambda B, **x: K.RBFKernelGrad(batch_shape=B, **x), True),
    "RBFGradGrad": (K.RBFKernelGradGrad, lambda B, **x: K.RBFKernelGradGrad(batch_shape=B, **x), True),
    "M52Grad": (K.Matern52KernelGrad, lambda B, **x: K.Matern52KernelGrad(batch_shape=B, **x), True),
    "RFF": (K.RFFKernel, lambda B, **x: K.RFFKernel(num_samples=4, num_dims=2, batch_shape=B, **x), True),
    "GSKL": (K.GaussianSymmetrizedKLKernel, lambda B, **x: K.GaussianSymmetrizedKLKernel(batch_shape=B, **x), True),
    "MTK": (K.MultitaskKernel, lambda B, **x: K.MultitaskKernel(K.RBFKernel(batch_shape=B), num_tasks=2, rank=1, batch_shape=B, **x), True),
    "LCM": (K.LCMKernel, lambda B, **x: K.LCMKernel([K.RBFKernel(), K.MaternKernel()], num_tasks=2, rank=1, **x), False),
    "Gauss": (L.GaussianLikelihood, lambda B, **x: L.GaussianLikelihood(batch_shape=B, **x), True),
    "GaussMiss": (L.GaussianLikelihoodWithMissingObs, lambda B, **x: L.GaussianLikelihoodWithMissingObs(batch_shape=B, **x), True),
    "Fixed+": (L.FixedNoiseGaussianLikelihood,
               lambda B, **x: L.FixedNoiseGaussianLikelihood(torch.ones(*B, 3), learn_additional_noise=True, batch_shape=B, **x), True),
    "Dirichlet+": (L.DirichletClassificationLikelihood,
                   lambda B, **x: L.DirichletClassificationLikelihood(torch.tensor([0, 1, 1]), learn_additional_noise=True, batch_shape=B, **x), True),
    "MTGauss0": (L.MultitaskGaussianLikelihood, lambda B, **x: L.MultitaskGaussianLikelihood(num_tasks=2, batch_shape=B, **x), True),
    "MTGauss1": (L.MultitaskGaussianLikelihood, lambda B, **x: L.MultitaskGaussianLikelihood(num_tasks=2, rank=1, batch_shape=B, **x), True),
    "MTBase": (L._MultitaskGaussianLikelihoodBase,
               lambda B, **x: L._MultitaskGaussianLikelihoodBase(num_tasks=2, noise_covar=NM.MultitaskHomoskedasticNoise(2, batch_shape=B),
                                                                 rank=1, batch_shape=B, **x), True),
    "Laplace": (L.LaplaceLikelihood, lambda B, **x: L.LaplaceLikelihood(batch_shape=B, **x), True),
    "StudentT": (L.StudentTLikelihood, lambda B, **x: L.StudentTLikelihood(batch_shape=B, **x), True),
    "Beta": (L.BetaLikelihood, lambda B, **x: L.BetaLikelihood(batch_shape=B, **x), True),
    "Softmax": (L.SoftmaxLikelihood, lambda B, **x: L.SoftmaxLikelihood(num_features=3, num_classes=2, **x), False),
    "ConstMeanC": (M.ConstantMean, lambda B, **x: M.ConstantMean(**{"constant_constraint": C.Interval(-1.0, 1.0), "batch_shape": B, **x}), True),
    "ConstMean": (M.ConstantMean, lambda B, **x: M.ConstantMean(batch_shape=B, **x), True),
    "ConstMeanGrad": (M.ConstantMeanGrad, lambda B, **x: M.ConstantMeanGrad(batch_shape=B, **x), True),
    "ConstMeanGradGrad": (M.ConstantMeanGradGrad, lambda B, **x: M.ConstantMeanGradGrad(batch_shape=B, **x), True),
    "Homo": (NM.HomoskedasticNoise, lambda B, **x: NM.HomoskedasticNoise(batch_shape=B, **x), True),
    "MTHomo": (NM.MultitaskHomoskedasticNoise, lambda B, **x: NM.MultitaskHomoskedasticNoise(num_tasks=3, batch_shape=B, **x), True),
}
# forwarding properties: (recipe) -> [(property on the top module, path of the module owning the raw parameter, its property)]
ALIASES = {
    "Gauss": [("noise", "noise_covar", "noise")],
    "GaussMiss": [("noise", "noise_covar", "noise")],
    "Fixed+": [("second_noise", "second_noise_covar", "noise")],
    "Dirichlet+": [("second_noise", "second_noise_covar", "noise")],
}
# constructor arguments taken through **kwargs (not visible in the signature)
EXTRA_ARGS = {
    "GaussMiss": ["noise_prior", "noise_constraint"],
    "Fixed+": ["noise_prior", "noise_constraint"],
    "Dirichlet+": ["noise_prior", "noise_constraint"],
}


def ctor_args(recipe):
    cls = RECIPES[recipe][0]
    names = [p for p in inspect.signature(cls.__init__).parameters if p != "self"]
    names += EXTRA_ARGS.get(recipe, [])
    if issubclass(cls, K.Kernel) and getattr(cls, "has_lengthscale", False):
        names += [a for a in ("lengthscale_prior", "lengthscale_constraint") if a not in names]
    return names


def build(recipe, batch, **extra):
    _, fn, batched = RECIPES[recipe]
    return fn(_B(batch if batched else []), **extra)


def sub_of(mod, path):
    return mod.get_submodule(path) if path else mod


def discover_pairs(mod):
    """(path, property, raw parameter name) for every raw_<p> parameter that has a public property <p> with a setter."""
    out = []
    for path, sub in mod.named_modules():
        for pname, _ in sub.named_parameters(recurse=False):
            if not pname.startswith("raw_"):
                continue
            prop = getattr(type(sub), pname[4:], None)
            if isinstance(prop, property) and prop.fset is not None:
                out.append((path, pname[4:]))
    return out


BROKEN_RECIPES = {}  # recipe -> error text; reported as a violation by the construct-only cases of setter.roundtrip


def _static_pairs():
    out = []
    for r in RECIPES:
        try:
            m = build(r, [])
        except Exception as e:  # noqa: BLE001 - the library refused its own default construction: judged at run time
            BROKEN_RECIPES[r] = f"{type(e).__name__}: {e}"
            continue
        for path, prop in discover_pairs(m):
            out.append((r, path, prop, None))
        for alias, opath, oprop in ALIASES.get(r, []):
            out.append((r, opath, oprop, alias))
    return out


PAIRS = _static_pairs()  # (recipe, path of the owning module, property, alias on the top module or None)


def cons_bounds(cons, shape):
    if cons is None:
        return np.full(shape, -INF), np.full(shape, INF)
    return np.broadcast_to(_np(cons.lower_bound), shape), np.broadcast_to(_np(cons.upper_bound), shape)


def readback_tol(ctx, name, got, want, lo, hi):
    """value read back after an assignment: 1e-10 relative (DESIGN C17).  torch's softplus (the default transform of the
    one-sided constraints, a dependency) is the identity above its threshold 20 although softplus(x) - x = log1p(exp(-x)) is
    still 2.06e-9 there, so a value more than ~19 away from its finite bound comes back with an absolute error of up to 2.1e-9."""
    want = np.asarray(want, float)
    lo_b, hi_b = np.broadcast_to(lo, want.shape), np.broadcast_to(hi, want.shape)
    one_sided = np.isfinite(lo_b) != np.isfinite(hi_b)
    with np.errstate(invalid="ignore"):
        off = np.where(np.isfinite(lo_b), want - lo_b, hi_b - want)
    far = bool((one_sided & (off > 19)).any())
    fin = [abs(float(v)) for v in (lo_b.reshape(-1)[:1].tolist() + hi_b.reshape(-1)[:1].tolist()) if math.isfinite(v)]
    scale = max([1.0] + fin)
    got = np.asarray(got, float)
    if got.size == want.size and got.shape != want.shape and got.squeeze().shape == want.squeeze().shape:
        got = got.reshape(want.shape)
    return ctx.close(name, got, want, rtol=1e-10, atol=(2.5e-9 if far else 1e-12 * scale), scale=1.0)


def make_value(form, shape, qs, lo, hi, uniform_bounds):
    """-> (object to assign, expected full-shape numpy array).  lo/hi are full-shape numpy arrays."""
    n = int(np.prod(shape)) if shape else 1
    if not uniform_bounds and form not in ("full", "suffix"):
        form = "full"
    if form in ("float", "t0") or not shape:
        v = float(inb(lo.max(), hi.min(), qs[0]))
        obj = v if form == "float" else torch.tensor(v)
        return form if shape else form, obj, np.full(shape, v)
    if form == "suffix":
        j = (len(shape) + 1) // 2
        small = tuple(shape[j:])
    elif form == "keepdim":
        small = tuple(shape[:-1]) + (1,) if shape[-1] > 1 else (1,) + tuple(shape[1:])
    else:
        form, small = "full", tuple(shape)
    if not small:
        small = (1,)
    if not uniform_bounds and small[-1] != shape[-1]:  # tensor-valued bounds live on the last dimension: keep it
        form, small = "full", tuple(shape)
    idx = tuple(slice(0, 1) if s == 1 and f != 1 else slice(None) for s, f in zip(small, shape[len(shape) - len(small):]))
    lo_s = lo[(0,) * (len(shape) - len(small)) + idx]
    hi_s = hi[(0,) * (len(shape) - len(small)) + idx]
    k = int(np.prod(small))
    val = inb(lo_s, hi_s, cyc(qs, k).reshape(small))
    return form, torch.tensor(val), np.broadcast_to(val, shape).copy()


NO_BROADCAST = {("Const", "constant")}
# StudentTLikelihood's constructor itself assigns deg_free=7: a generated constraint excluding 7 is my generator's problem
NO_CUSTOM = {("StudentT", "deg_free"), ("ConstMeanC", "constant")}


def custom_constraint(spec, d):
    """Constraint object and its (lower, upper) numpy bounds from a case spec; d = last-dimension extent."""
    if spec is None:
        return None
    kind = spec["kind"]
    if spec.get("tensor") and d in (2, 3):
        lo = [spec["lower"] + 0.25 * i for i in range(d)]
        hi = [spec["lower"] + spec["width"] * (1 + i) + 0.25 * i for i in range(d)]
    else:
        lo, hi = spec["lower"], spec["lower"] + spec["width"]
    if kind == "Interval":
        return make_constraint("Interval", spec.get("tf", "default"), lo, hi)
    if kind == "GreaterThan":
        return make_constraint("GreaterThan", spec.get("tf", "default"), lo, None)
    if kind == "LessThan":
        return make_constraint("LessThan", spec.get("tf", "default"), None, hi)
    return make_constraint("Positive", spec.get("tf", "default"), None, None)


def run_setter(case, ctx: Ctx):
    if case.get("construct_only"):
        ctx.cls = f"{case['recipe']}|construct|batch{len(case['batch'])}"
        with ctx.observing("construct"):
            build(case["recipe"], case["batch"])
        return
    recipe, batch, path, prop, alias = case["recipe"], case["batch"], case["path"], case["prop"], case.get("alias")
    batched = RECIPES[recipe][2]
    if not batched:
        batch = []
    spec = case.get("cons")
    carg = f"{prop}_constraint"
    if recipe in ("MTGauss0", "MTGauss1") and prop in ("noise", "task_noises"):
        carg = "noise_constraint"
    use_custom = spec is not None and path in ("", "second_noise_covar") and carg in ctor_args(recipe) and (recipe, prop) not in NO_CUSTOM
    ctx.cls = f"{recipe}|{path}.{prop}|{'custom' if use_custom else 'default'}|batch{len(batch)}"
    with ctx.observing("construct"):
        mod = build(recipe, batch)
        d = getattr(sub_of(mod, path), "raw_" + prop).shape[-1] if getattr(sub_of(mod, path), "raw_" + prop).dim() else 1
        if use_custom:
            mod = build(recipe, batch, **{carg: custom_constraint(spec, d)})
        owner = sub_of(mod, path)
        raw_name = "raw_" + prop
        raw = getattr(owner, raw_name)
        shape = tuple(raw.shape)
        cons = owner.constraint_for_parameter_name(raw_name)
    ckind = type(cons).__name__ if cons is not None else "None"
    if use_custom:
        ctx.check("constraint.used", ckind == spec["kind"], f"constructor argument {carg} ignored: registered {ckind}")
    lo, hi = cons_bounds(cons, shape)
    uniform = bool((lo == lo.reshape(-1)[0]).all() and (hi == hi.reshape(-1)[0]).all()) if lo.size else True
    target_obj, target_attr = (mod, alias) if alias else (owner, prop)

    def read():
        return _np(getattr(target_obj, target_attr))

    # Which argument forms are inside the setter's documented domain?  A plain float is judged only where the setter is
    # annotated to accept one (e.g. `Union[float, Tensor]`); elsewhere a TypeError/AttributeError on a float counts as
    # "tensor-only setter" (clean rejection) while an *accepted* float must still read back.  ConstantKernel's setter is
    # written for a tensor of the parameter's own size (`value.view(*batch_shape, 1)`): no broadcasting forms there.
    ann = str(getattr(getattr(type(target_obj), target_attr).fset, "__annotations__", {}).get("value", ""))
    float_documented = "float" in ann
    want_form = case["form"]
    if (recipe, prop) in NO_BROADCAST and want_form != "float":
        want_form = "full"

    # --- in-bounds assignment reads back ---------------------------------------------------------------
    form, obj, want = make_value(want_form, shape, case["q"], lo, hi, uniform)
    if form == "float" and not float_documented:
        try:
            setattr(target_obj, target_attr, obj)
        except (TypeError, AttributeError) as e:
            if innermost_repo_frame(e.__traceback__) is None:
                raise
            ctx.label("float=tensor_only_setter")
            form, obj, want = make_value("full", shape, case["q"], lo, hi, uniform)
    with ctx.observing("set", cls=f"{recipe}|{path}.{prop}|{form}"):
        setattr(target_obj, target_attr, obj)
        got = read()
        got_direct = _np(getattr(owner, prop))
    readback_tol(ctx, "set.reads_back", got, want, lo, hi)
    if alias:
        readback_tol(ctx, "set.alias_consistent", got_direct, want, lo, hi)
    ctx.label(f"pair={recipe}.{path + '.' if path else ''}{alias or prop}", f"form={form}", f"cons={ckind}{'*' if use_custom else ''}",
              f"batch={len(batch)}")
    ctx.set_nontrivial(bool(batch) or use_custom)

    # --- out-of-bounds assignment is refused and changes nothing ----------------------------------------
    oob = case["oob"]
    sides = [s for s, b in (("lo", lo), ("hi", hi)) if np.isfinite(b).all()]
    if sides:
        side = oob["side"] if oob["side"] in sides else sides[0]
        bnd = lo if side == "lo" else hi
        delta = 10.0 ** (-6 + 8 * oob["dq"]) * np.maximum(1.0, np.abs(bnd))
        bad_full = bnd - delta if side == "lo" else bnd + delta
        oform = oob["form"]
        if oform == "float" and uniform and float_documented:
            bad_obj = float(bad_full.reshape(-1)[0]) if bad_full.size else 0.0
        elif oform == "partial" and want.size > 1:
            arr = want.copy().reshape(-1)
            j = int(oob["dq"] * 1000) % arr.size
            arr[j] = bad_full.reshape(-1)[j]
            bad_obj = torch.tensor(arr.reshape(shape))
        else:
            oform = "full"
            bad_obj = torch.tensor(np.array(bad_full, float))
        before = raw.detach().clone()
        ok = expect_raises(ctx, "oob.rejected", lambda: setattr(target_obj, target_attr, bad_obj), RuntimeError, "out of bounds")
        ctx.check("oob.unchanged", torch.equal(getattr(owner, raw_name).detach(), before),
                  f"the raw parameter changed although the {side}-side out-of-bounds assignment ({oform}) was {'refused' if ok else 'not refused'}")
        ctx.label(f"oob={side}/{oform}")

    # --- initialize(raw_<p>=...) -------------------------------------------------------------------------
    if cons is not None:
        before = getattr(owner, raw_name).detach().clone()
        nan_t = torch.full(shape, math.nan) if case["raw_nan"] == "all" or not shape or before.numel() == 1 else before.clone()
        if nan_t is not before and not torch.isnan(nan_t).any():
            nan_t.reshape(-1)[0] = math.nan
        expect_raises(ctx, "init_raw.nan_rejected", lambda: owner.initialize(**{raw_name: nan_t}), RuntimeError, "out of bounds")
        ctx.check("init_raw.nan_unchanged", torch.equal(getattr(owner, raw_name).detach(), before), "raw parameter changed by a refused initialize")
    # any finite raw value is acceptable (it maps into the bounds); tensor and, per the initialize docstring
    # ("Value can take the form of a tensor, a float, or an int"), a plain float
    rv = case["raw_value"]
    with ctx.observing("init_raw.tensor"):
        owner.initialize(**{raw_name: torch.tensor(rv)})
        got_raw = _np(getattr(owner, raw_name))
        val = read()
    ctx.check("init_raw.tensor_stored", bool((got_raw == rv).all()), f"raw reads {got_raw.reshape(-1)[:3]} after initialize({raw_name}={rv})")
    ctx.check("init_raw.in_bounds", bool(np.isfinite(val).all() and (val.reshape(shape) >= lo).all() and (val.reshape(shape) <= hi).all()),
              f"value {val.reshape(-1)[:3]} outside [{lo.reshape(-1)[:1]}, {hi.reshape(-1)[:1]}] after initialize({raw_name}={rv})")
    rf = case["raw_float"]
    with ctx.observing("init_raw.float", cls=f"float|{ckind}"):
        owner.initialize(**{raw_name: rf})
        got_raw = _np(getattr(owner, raw_name))
    ctx.check("init_raw.float_stored", bool((got_raw == rf).all()), f"raw reads {got_raw.reshape(-1)[:3]} after initialize({raw_name}={rf!r})")


_CONS_SPEC = st.one_of(
    st.none(),
    st.builds(lambda kind, lower, width, tensor, tf: {"kind": kind, "lower": lower, "width": width, "tensor": tensor, "tf": tf},
              st.sampled_from(["Interval", "Interval", "GreaterThan", "LessThan", "Positive"]),
              st.sampled_from([0.0, 1e-4, 0.05, 0.5, -1.0]), st.sampled_from([0.5, 2.0, 7.5, 100.0]), st.booleans(),
              st.sampled_from(["default", "default", "registry"])),
)


def _fix_tf(spec):
    if spec is None:
        return None
    spec = dict(spec)
    if spec["tf"] == "registry":
        spec["tf"] = "reg_sigmoid" if spec["kind"] == "Interval" else "reg_softplus"
    if spec["kind"] == "Positive":
        spec["tensor"] = False
    return spec


@st.composite
def setter_cases(draw):
    recipe, path, prop, alias = draw(st.sampled_from(PAIRS))
    return {
        "recipe": recipe, "path": path, "prop": prop, "alias": alias,
        "batch": draw(st.sampled_from([[], [], [2], [2], [3, 2], [1]])),
        "cons": _fix_tf(draw(_CONS_SPEC)),
        "form": draw(st.sampled_from(["float", "t0", "full", "full", "suffix", "keepdim"])),
        "q": draw(QS),
        "oob": {"side": draw(st.sampled_from(["lo", "hi"])), "dq": draw(Q), "form": draw(st.sampled_from(["float", "full", "partial"]))},
        "raw_nan": draw(st.sampled_from(["all", "one"])),
        "raw_value": draw(st.one_of(st.floats(min_value=-1e300, max_value=1e300), st.floats(-40, 40))),
        "raw_float": draw(st.one_of(LAT, st.floats(-40, 40))),
    }


def enumerate_setter_pairs(tier):
    """every discovered pair x batch shape x value form once (so that no pair depends on being drawn)"""
    for recipe in RECIPES:
        for batch in ([], [2]):
            yield {"recipe": recipe, "batch": batch, "construct_only": True}
    for recipe, path, prop, alias in PAIRS:
        for batch in ([], [2]):
            for form in ("float", "full"):
                yield {"recipe": recipe, "path": path, "prop": prop, "alias": alias, "batch": batch, "cons": None, "form": form,
                       "q": [0.37, 0.61, 0.13], "oob": {"side": "lo", "dq": 0.5, "form": "full" if form == "full" else "float"},
                       "raw_nan": "all", "raw_value": -1.5, "raw_float": 0.25}


# =====================================================================================================
# 3. histories
# =====================================================================================================
class _Box(gpytorch.Module):
    def __init__(self, mean, covar, lik):
        super().__init__()
        self.mean_module, self.covar_module, self.likelihood = mean, covar, lik


def build_model(name, batch):
    B = _B(batch)
    if name == "A":
        return _Box(
            M.ConstantMean(constant_constraint=C.Interval(-2.0, 2.0), constant_prior=P.NormalPrior(0.0, 1.0), batch_shape=B),
            K.ScaleKernel(K.RBFKernel(ard_num_dims=2, lengthscale_prior=P.LogNormalPrior(0.0, 1.0), batch_shape=B),
                          outputscale_prior=P.GammaPrior(2.0, 3.0), batch_shape=B),
            L.GaussianLikelihood(noise_prior=P.GammaPrior(1.1, 5.0), batch_shape=B),
        )
    if name == "B":
        return _Box(
            M.ConstantMean(constant_prior=P.NormalPrior(0.5, 2.0)),
            K.ScaleKernel(K.PeriodicKernel(period_length_prior=P.UniformPrior(0.5, 3.0), lengthscale_constraint=C.Interval(0.05, 20.0)))
            + K.MaternKernel(nu=2.5, lengthscale_prior=P.HalfCauchyPrior(1.0)) * K.LinearKernel(variance_prior=P.HalfNormalPrior(1.0)),
            L.StudentTLikelihood(noise_prior=P.SmoothedBoxPrior(0.01, 2.0, 0.1), deg_free_prior=P.GammaPrior(4.0, 1.0)),
        )
    if name == "C":
        return _Box(
            M.ConstantMean(constant_constraint=C.LessThan(1.0), batch_shape=B),
            K.SpectralMixtureKernel(num_mixtures=2, ard_num_dims=2, batch_shape=B)
            * K.RQKernel(alpha_constraint=C.Interval(0.1, 10.0), batch_shape=B)
            + K.ArcKernel(K.RBFKernel(batch_shape=B), angle_prior=P.UniformPrior(0.1, 0.4), radius_prior=P.HorseshoePrior(0.5), batch_shape=B),
            L.MultitaskGaussianLikelihood(num_tasks=2, noise_constraint=C.Interval(1e-3, 5.0), batch_shape=B),
        )
    raise KeyError(name)


MODEL_BATCH = {"A": True, "B": False, "C": True}


# registered prior name -> public property it is a prior of (default: strip "_prior")
PRIOR_PROP = {"mean_prior": "constant", "raw_task_noises_prior": "task_noises", "raw_noise_prior": "noise"}


def prior_prop(local_name):
    return PRIOR_PROP.get(local_name, local_name[:-6] if local_name.endswith("_prior") else local_name)


def _model_pairs(model):
    """[(dotted path, owner, property, raw name, constraint or None)]"""
    out = []
    for path, prop in discover_pairs(model):
        owner = sub_of(model, path)
        out.append((path, owner, prop, "raw_" + prop, owner.constraint_for_parameter_name("raw_" + prop)))
    return out


def _check_invariant(ctx, pairs, where, mname):
    for path, owner, prop, raw_name, cons in pairs:
        if cons is None:
            continue
        with ctx.observing("invariant.read"):
            v = _np(getattr(owner, prop))
        lo, hi = cons_bounds(cons, v.shape)
        ok = bool(np.isfinite(v).all() and (v >= lo).all() and (v <= hi).all())
        ctx.check("invariant.bounds", ok,
                  f"{path}.{prop} reads {v.reshape(-1)[:4]} outside [{lo.reshape(-1)[0]}, {hi.reshape(-1)[0]}] {where}",
                  cls=f"{mname}|{type(cons).__name__}")


def _raws(model):
    return {n: p.detach().clone() for n, p in model.named_parameters()}


def _frame(ctx, model, before, allowed, where):
    for n, p in model.named_parameters():
        if n not in allowed and not torch.equal(p.detach(), before[n]):
            ctx.check("frame.untouched_parameter", False, f"{n} changed {where} although only {sorted(allowed)} was addressed")


def run_history(case, ctx: Ctx):
    mname = case["model"]
    batch = case["batch"] if MODEL_BATCH[mname] else []
    ctx.cls = f"hist|{mname}|batch{len(batch)}"
    with ctx.observing("construct"):
        model = build_model(mname, batch)
        pairs = _model_pairs(model)
        priors = list(model.named_priors())
    _check_invariant(ctx, pairs, "after construction", mname)
    kinds = set()
    for i, op in enumerate(case["ops"]):
        kind = op["op"]
        where = f"after op {i} ({kind})"
        kinds.add(kind)
        ctx.label(f"op={kind}")
        before = _raws(model)
        if kind in ("set", "init", "init_raw"):
            path, owner, prop, raw_name, cons = pairs[op["target"] % len(pairs)]
            full_raw = f"{path}.{raw_name}" if path else raw_name
            shape = tuple(getattr(owner, raw_name).shape)
            lo, hi = cons_bounds(cons, shape)
            if kind == "init_raw":
                rv = torch.tensor(cyc(op["raw"], max(1, int(np.prod(shape)))).reshape(shape))
                with ctx.observing("init_raw"):
                    model.initialize(**{full_raw: rv})
                ctx.check("init_raw.stored", torch.equal(getattr(owner, raw_name).detach(), rv), f"{full_raw} does not hold the initialised raw value {where}")
            else:
                form = op["form"] if (prop != "constant" or not isinstance(owner, K.ConstantKernel)) else "full"
                if kind == "init" and form == "float":
                    form = "t0"  # floats through initialize: covered by setter.roundtrip (annotation rule)
                form, obj, want = make_value(form if form != "float" else "t0", shape, op["q"], lo, hi, True)
                # Module.initialize(<p>=v) additionally refuses values outside the support of a prior registered as <p>_prior
                # ("Ensure value is contained in support of prior"): a documented refusal, the parameter is already written then
                pr = owner._priors.get(prop + "_prior") if kind == "init" else None
                if pr is not None and not bool(pr[0].support.check(torch.tensor(want)).all()):
                    expect_raises(ctx, "init.outside_prior_support", lambda: model.initialize(**{(f"{path}.{prop}" if path else prop): obj}),
                                  ValueError, "Invalid input value for prior")
                    ctx.label("init=refused_prior_support")
                    _check_invariant(ctx, pairs, where, mname)
                    continue
                with ctx.observing(kind):
                    if kind == "set":
                        setattr(owner, prop, obj)
                    else:
                        model.initialize(**{(f"{path}.{prop}" if path else prop): obj})
                    got = _np(getattr(owner, prop))
                readback_tol(ctx, f"{kind}.reads_back", got, want, lo, hi)
            _frame(ctx, model, before, {full_raw}, where)
        elif kind == "step":
            params = [p for p in model.parameters()]
            w = cyc(op["w"], len(pairs))
            with ctx.observing("step.loss"):
                terms = []
                for wi, (path, owner, prop, raw_name, cons) in zip(w, pairs):
                    raw = getattr(owner, raw_name)
                    con = getattr(owner, prop)
                    if op["loss"] == "lin_raw":
                        terms.append(wi * raw.sum())
                    elif op["loss"] == "lin_con":
                        terms.append(wi * con.sum())
                    else:
                        terms.append(wi * ((con - 1.0) ** 2).sum())
                loss = sum(terms)
                for p in params:
                    p.grad = None
                loss.backward()
            grads_ok = all(p.grad is None or bool(torch.isfinite(p.grad).all()) for p in params)
            if not grads_ok or not math.isfinite(float(loss)):
                ctx.label("step=skipped_nonfinite_loss")  # a generated loss that overflowed: not an optimiser step anyone would take
            else:
                opt = (torch.optim.SGD if op["opt"] == "sgd" else torch.optim.Adam)(params, lr=op["lr"])
                opt.step()
            for p in params:
                p.grad = None
            if not all(bool(torch.isfinite(p).all()) for p in params):
                ctx.label("step=raw_overflow")  # lr * grad beyond the double range: the premise "finite raw value" is gone
                break
            ctx.label("lr=" + ("huge" if op["lr"] > 1e6 else "big" if op["lr"] > 10 else "small"))
        elif kind == "sample":
            name, owner, prior, closure, setting = priors[op["prior"] % len(priors)]
            local = name.rsplit(".", 1)[-1]
            torch.manual_seed(op["torch_seed"])
            with ctx.observing("sample.reference"):
                exp = _np(prior.sample())
            tgt = _np(closure(owner))
            # bounds of the parameter the prior is attached to
            pprop = prior_prop(local)
            pr = [c_ for (pa, ow, p_, rn, c_) in pairs if ow is owner and p_ == pprop]
            cons = pr[0] if pr else None
            lo, hi = cons_bounds(cons, tgt.shape)
            try:
                want = np.broadcast_to(exp, tgt.shape)
            except ValueError:
                want = None
            torch.manual_seed(op["torch_seed"])
            lo_m = np.where(np.isfinite(lo), lo + 1e-9 * np.abs(lo), lo)
            hi_m = np.where(np.isfinite(hi), hi - 1e-9 * np.abs(hi), hi)
            if want is not None and bool(((want > lo_m) & (want < hi_m) & np.isfinite(want)).all()):
                with ctx.observing("sample_from_prior"):
                    owner.sample_from_prior(local)
                    got = _np(closure(owner))
                readback_tol(ctx, "sample.stored", got, want, lo, hi)
                ctx.label("sample=stored")
                _frame(ctx, model, before, {n for n in before if not torch.equal(before[n], dict(model.named_parameters())[n].detach())
                                            and n.rsplit(".", 1)[0] == name.rsplit(".", 1)[0]}, where)
            elif want is not None and bool(((want < lo) | (want > hi) | ~np.isfinite(want)).any()):
                expect_raises(ctx, "sample.oob_rejected", lambda: owner.sample_from_prior(local), RuntimeError, "out of bounds")
                _frame(ctx, model, before, set(), where)
                ctx.label("sample=out_of_bounds_refused")
            else:
                ctx.label("sample=borderline_not_judged")
        _check_invariant(ctx, pairs, where, mname)
    ctx.set_nontrivial(len(kinds) >= 2)


_N_PAIRS = 16
_OP = st.one_of(
    st.builds(lambda t, q, f: {"op": "set", "target": t, "q": q, "form": f}, st.integers(0, _N_PAIRS - 1), QS,
              st.sampled_from(["float", "t0", "full", "suffix", "keepdim"])),
    st.builds(lambda t, q, f: {"op": "init", "target": t, "q": q, "form": f}, st.integers(0, _N_PAIRS - 1), QS,
              st.sampled_from(["t0", "full", "suffix"])),
    st.builds(lambda t, r: {"op": "init_raw", "target": t, "raw": r}, st.integers(0, _N_PAIRS - 1),
              st.lists(st.one_of(st.floats(min_value=-1e300, max_value=1e300), st.floats(-50, 50)), min_size=1, max_size=4)),
    st.builds(lambda o, lr, loss, w: {"op": "step", "opt": o, "lr": lr, "loss": loss, "w": w}, st.sampled_from(["sgd", "adam"]),
              st.one_of(st.floats(min_value=-3, max_value=2), st.floats(min_value=2, max_value=290)).map(lambda e: 10.0 ** e),
              st.sampled_from(["lin_raw", "lin_con", "sq_con"]),
              st.lists(st.one_of(LAT, st.floats(-1e3, 1e3)), min_size=1, max_size=5)),
    st.builds(lambda p, s: {"op": "sample", "prior": p, "torch_seed": s}, st.integers(0, 7), SEED),
)


def history_cases():
    return st.builds(lambda m, b, ops: {"model": m, "batch": b, "ops": ops}, st.sampled_from(["A", "A", "B", "C", "C"]),
                     st.sampled_from([[], [], [2]]), st.lists(_OP, min_size=1, max_size=10))


# =====================================================================================================
# 4. priors: reference densities
# =====================================================================================================
def np_softplus(x):
    return np.logaddexp(0.0, x)


def np_inv_softplus(y):
    return y + np.log(-np.expm1(-y))


def _affine(x):
    return 2.0 * x + 1.0


# name -> (callable handed to the prior, numpy version, numpy inverse)
PTF = {
    "exp": (torch.exp, np.exp, np.log),
    "log": (torch.log, np.log, np.exp),
    "softplus": (torch.nn.functional.softplus, np_softplus, np_inv_softplus),
    "square": (torch.square, np.square, np.sqrt),
    "affine": (_affine, _affine, lambda y: (y - 1.0) / 2.0),
}
UNIVARIATE = {  # class name -> (support, parameter names)
    "NormalPrior": ("real", ("loc", "scale")),
    "LogNormalPrior": ("pos", ("loc", "scale")),
    "GammaPrior": ("pos", ("concentration", "rate")),
    "HalfNormalPrior": ("pos", ("scale",)),
    "HalfCauchyPrior": ("pos", ("scale",)),
    "UniformPrior": ("box", ("a", "b")),
    "HorseshoePrior": ("real", ("scale",)),
    "SmoothedBoxPrior": ("real", ("a", "b", "sigma")),
}
ALL_PRIOR_CLASSES = sorted(set(P.__all__) - {"Prior"}) + ["WishartPrior", "InverseWishartPrior"]


def _pt(v):
    return torch.tensor(v, dtype=torch.float64) if isinstance(v, list) else v


def _pd_from(vals, n):
    """A well-conditioned positive definite n x n matrix from n(n+1)/2 numbers in [-1, 1] (numpy)."""
    A = np.zeros((n, n))
    it = iter(cyc(vals, n * (n + 1) // 2))
    for i in range(n):
        for j in range(i + 1):
            v = next(it)
            A[i, j] = 0.6 + abs(v) if i == j else v
    return A @ A.T


def _corr_chol_from(vals, n):
    """Cholesky factor of a correlation matrix from n(n-1)/2 canonical partial correlations in (-1, 1)."""
    z = iter(cyc(vals, max(1, n * (n - 1) // 2)))
    Lm = np.zeros((n, n))
    Lm[0, 0] = 1.0
    for i in range(1, n):
        rem = 1.0
        for j in range(i):
            Lm[i, j] = next(z) * math.sqrt(rem)
            rem -= Lm[i, j] ** 2
        Lm[i, i] = math.sqrt(rem)
    return Lm


def build_prior(spec, tf=None):
    kw = {"transform": PTF[tf][0]} if tf else {}
    c = spec["cls"]
    if c in UNIVARIATE:
        args = [_pt(spec[k]) for k in UNIVARIATE[c][1]]
        if c == "HorseshoePrior" and isinstance(args[0], float):
            args[0] = float(args[0])
        return getattr(P, c)(*args, **kw)
    if c == "MultivariateNormalPrior":
        cov = _pd_from(spec["cov"], len(spec["loc"]))
        loc = torch.tensor(spec["loc"])
        if spec["param"] == "covariance_matrix":
            return P.MultivariateNormalPrior(loc, covariance_matrix=torch.tensor(cov), **kw)
        if spec["param"] == "precision_matrix":
            return P.MultivariateNormalPrior(loc, precision_matrix=torch.tensor(np.linalg.inv(cov)), **kw)
        return P.MultivariateNormalPrior(loc, scale_tril=torch.tensor(np.linalg.cholesky(cov)), **kw)
    if c in ("LKJCholeskyFactorPrior", "LKJPrior"):
        return getattr(P, c)(spec["n"], spec["eta"], **kw)
    if c == "LKJCovariancePrior":
        return P.LKJCovariancePrior(spec["n"], spec["eta"], build_prior(spec["sd_prior"]))
    if c == "WishartPrior":
        return WishartPrior(spec["nu"], torch.tensor(_pd_from(spec["K"], spec["n"])))
    if c == "InverseWishartPrior":
        return InverseWishartPrior(spec["nu"], torch.tensor(_pd_from(spec["K"], spec["n"])))
    raise KeyError(c)


def lkj_log_norm(n, eta):
    """log of c with p(Sigma) = c |Sigma|^(eta-1) over n x n correlation matrices (Lewandowski, Kurowicka & Joe 2009, eq. 16)."""
    s = 0.0
    for k in range(1, n):
        b = eta + (n - k - 1) / 2.0
        s += (2 * eta - 2 + n - k) * (n - k) * math.log(2.0) + (n - k) * scipy.special.betaln(b, b)
    return -s


def lkj_chol_logpdf(Lm, eta):
    """density of the Cholesky factor w.r.t. its strictly-lower entries: |Sigma|^(eta-1) x Jacobian prod_j L_jj^(n-j)."""
    n = Lm.shape[-1]
    d = np.diag(Lm)
    return lkj_log_norm(n, eta) + sum((2 * (eta - 1) + n - j) * math.log(d[j - 1]) for j in range(2, n + 1))


def smoothed_box_logpdf(a, b, sigma, y):
    """Flat on [a, b], Gaussian tails of s.d. sigma, normalised: p = exp(-d^2 / 2 sigma^2) / (sigma sqrt(2 pi) + b - a); the
    last dimension is the event dimension (summed)."""
    a, b, sigma = (np.atleast_1d(np.asarray(v, float)) for v in (a, b, sigma))
    dist = np.maximum(np.abs(y - (a + b) / 2) - (b - a) / 2, 0.0)
    lp = -dist**2 / (2 * sigma**2) - np.log(sigma * math.sqrt(2 * math.pi) + (b - a))
    return lp.sum(-1)


def ref_logprob(spec, y):
    """Reference log density at the (already transformed) numpy point y."""
    c = spec["cls"]
    g = lambda k: np.asarray(spec[k], float)  # noqa: E731
    if c == "NormalPrior":
        return scipy.stats.norm(g("loc"), g("scale")).logpdf(y)
    if c == "LogNormalPrior":
        return scipy.stats.lognorm(s=g("scale"), scale=np.exp(g("loc"))).logpdf(y)
    if c == "GammaPrior":
        return scipy.stats.gamma(a=g("concentration"), scale=1.0 / g("rate")).logpdf(y)
    if c == "HalfNormalPrior":
        return scipy.stats.halfnorm(scale=g("scale")).logpdf(y)
    if c == "HalfCauchyPrior":
        return scipy.stats.halfcauchy(scale=g("scale")).logpdf(y)
    if c == "UniformPrior":
        return scipy.stats.uniform(g("a"), g("b") - g("a")).logpdf(y)
    if c == "HorseshoePrior":  # class docstring: pdf ~ (lb + ub)/2, lb = K/2 log(1+4(s/x)^2), ub = K log(1+2(s/x)^2), K = 1/sqrt(2 pi^3)
        A = (g("scale") / y) ** 2
        Kc = 1.0 / math.sqrt(2 * math.pi**3)
        return np.log((Kc / 2 * np.log1p(4 * A) + Kc * np.log1p(2 * A)) / 2)
    if c == "SmoothedBoxPrior":
        return smoothed_box_logpdf(g("a"), g("b"), g("sigma"), y)
    if c == "MultivariateNormalPrior":
        cov = _pd_from(spec["cov"], len(spec["loc"]))
        rv = scipy.stats.multivariate_normal(np.asarray(spec["loc"], float), cov)
        flat = y.reshape(-1, y.shape[-1])
        return np.array([rv.logpdf(r) for r in flat]).reshape(y.shape[:-1])
    if c == "LKJCholeskyFactorPrior":
        return np.asarray(lkj_chol_logpdf(y, spec["eta"]))
    if c == "LKJPrior":
        return np.asarray(lkj_chol_logpdf(np.linalg.cholesky(y), spec["eta"]))
    if c == "LKJCovariancePrior":  # docstring: LKJ prior over the correlation matrix combined with sd_prior on each marginal s.d.
        sd = np.sqrt(np.diag(y))
        corr = y / np.outer(sd, sd)
        return np.asarray(lkj_chol_logpdf(np.linalg.cholesky(corr), spec["eta"]) + ref_logprob(spec["sd_prior"], sd).sum())
    if c == "WishartPrior":
        return np.asarray(scipy.stats.wishart(df=spec["nu"], scale=_pd_from(spec["K"], spec["n"])).logpdf(y))
    if c == "InverseWishartPrior":  # gpytorch's nu is the "shape" nu of Shah et al.: scipy's df = nu + n - 1
        return np.asarray(scipy.stats.invwishart(df=spec["nu"] + spec["n"] - 1, scale=_pd_from(spec["K"], spec["n"])).logpdf(y))
    raise KeyError(c)


def support_point(spec, q, k=None):
    """A point in the support of a univariate prior from fractions q (numpy array)."""
    sup = UNIVARIATE[spec["cls"]][0]
    q = np.asarray(q, float)
    if sup == "real":
        y = (q - 0.5) * 12.0
        if spec["cls"] == "HorseshoePrior":
            y = np.where(np.abs(y) < 1e-3, 1e-3, y)
        return y
    if sup == "pos":
        return 10.0 ** (-3 + 5 * q)
    a, b = np.asarray(spec["a"], float), np.asarray(spec["b"], float)
    return a + (0.01 + 0.98 * q) * (b - a)


def run_prior_logprob(case, ctx: Ctx):
    spec, tf = case["prior"], case.get("tf")
    c = spec["cls"]
    batched = any(isinstance(v, list) for k, v in spec.items() if k in ("loc", "scale", "concentration", "rate", "a", "b", "sigma")) \
        and c != "MultivariateNormalPrior"
    ctx.cls = f"{c}|tf={tf}|{'batched' if batched else 'plain'}"
    ctx.label(f"prior={c}", f"tf={tf}")
    with ctx.observing("construct"):
        prior = build_prior(spec, tf)
    # ---- the point(s)
    if c in UNIVARIATE:
        y = support_point(spec, case["q"])
        if c == "SmoothedBoxPrior":
            y = (np.asarray(spec["a"], float).min() - 3 * np.max(spec["sigma"])) + np.asarray(case["q"]) * (
                np.asarray(spec["b"], float).max() - np.asarray(spec["a"], float).min() + 6 * np.max(spec["sigma"]))
        if batched:
            k = max(len(v) for v in spec.values() if isinstance(v, list))
            y = cyc(y, k) if c != "UniformPrior" else support_point(spec, cyc(case["q"], k))
        if case.get("scalar_x"):
            y = np.asarray(y).reshape(-1)[0]
    elif c == "MultivariateNormalPrior":
        k = len(spec["loc"])
        y = (cyc(case["q"], k * case["rows"]).reshape(case["rows"], k) - 0.5) * 6.0
        if case["rows"] == 1 and case.get("scalar_x"):
            y = y[0]
    elif c.startswith("LKJ"):
        n = spec["n"]
        Lm = _corr_chol_from([2 * q - 1 for q in case["q"]], n)
        if c == "LKJCholeskyFactorPrior":
            y = Lm
        elif c == "LKJPrior":
            y = Lm @ Lm.T
            np.fill_diagonal(y, 1.0)
        else:
            sd = support_point(spec["sd_prior"], cyc(case["sd_q"], n)) if spec["sd_prior"]["cls"] != "SmoothedBoxPrior" else \
                spec["sd_prior"]["a"] + cyc(case["sd_q"], n) * (spec["sd_prior"]["b"] - spec["sd_prior"]["a"])
            y = (Lm @ Lm.T) * np.outer(sd, sd)
    else:
        y = _pd_from([2 * q - 1 for q in case["q"]], spec["n"])
    y = np.asarray(y, float)
    if tf:
        x = PTF[tf][2](y)
        if tf == "square" and case.get("neg"):
            x = -x
        y = PTF[tf][1](x)  # what the prior must evaluate its density at
    else:
        x = y
    want = np.asarray(ref_logprob(spec, y), float)
    with ctx.observing("log_prob"):
        got = prior.log_prob(torch.tensor(x))
    # closed-form densities: rtol 1e-9; atol 1e-9 covers cancellation between O(1e3) terms (x^(a-1) e^(-bx) / Gamma(a) at the
    # edges of the parameter ranges) and the O(cond * eps) error of the 2..4-dimensional determinants / solves
    ctx.close("log_prob.value", got, want, rtol=1e-9, atol=1e-9)
    ctx.set_nontrivial(bool(tf) or batched or c not in UNIVARIATE)

    # numerical normalisation where the class claims to be a normalised density
    if case.get("normalise") and tf is None and not batched:
        if c == "SmoothedBoxPrior":
            a, b, s = float(np.asarray(spec["a"]).reshape(-1)[0]), float(np.asarray(spec["b"]).reshape(-1)[0]), float(np.asarray(spec["sigma"]).reshape(-1)[0])
            with ctx.observing("normalisation"):
                Z = scipy.integrate.quad(lambda v: math.exp(float(prior.log_prob(torch.tensor([v])))), a - 12 * s, b + 12 * s,
                                         points=[a, b], epsabs=1e-11, epsrel=1e-11, limit=200)[0]
            ctx.close("normalisation.smoothed_box", Z, 1.0, rtol=1e-8, atol=1e-8)  # quad accuracy
        elif c == "LKJCholeskyFactorPrior" and spec["n"] == 2 and spec["eta"] >= 0.5:
            with ctx.observing("normalisation"):
                def f(t):  # L = [[1, 0], [sin t, cos t]], dr = cos t dt: bounded integrand for eta >= 1/2
                    return math.exp(float(prior.log_prob(torch.tensor([[1.0, 0.0], [math.sin(t), math.cos(t)]])))) * math.cos(t)
                h = math.pi / 2 - 1e-9
                Z = scipy.integrate.quad(f, -h, h, epsabs=1e-10, epsrel=1e-10, limit=200)[0]
            ctx.close("normalisation.lkj2", Z, 1.0, rtol=1e-6, atol=1e-6)  # quad accuracy near the end points


_POS = st.one_of(st.sampled_from([0.1, 0.5, 1.0, 2.0, 3.0]), st.floats(min_value=0.05, max_value=20.0))
_LOC = st.one_of(LAT, st.floats(min_value=-5, max_value=5))


def _maybe_list(s, k):
    return st.one_of(s, st.lists(s, min_size=k, max_size=k))


@st.composite
def scalar_prior_specs(draw, classes=tuple(UNIVARIATE), k=3, allow_batched=True):
    c = draw(st.sampled_from(list(classes)))
    ml = (lambda s: draw(_maybe_list(s, k))) if allow_batched else (lambda s: draw(s))
    if c in ("NormalPrior", "LogNormalPrior"):
        return {"cls": c, "loc": ml(_LOC if c == "NormalPrior" else st.floats(-2, 2)), "scale": ml(_POS if c == "NormalPrior" else st.floats(0.1, 2.0))}
    if c == "GammaPrior":
        return {"cls": c, "concentration": ml(st.floats(0.1, 50.0)), "rate": ml(_POS)}
    if c in ("HalfNormalPrior", "HalfCauchyPrior", "HorseshoePrior"):
        return {"cls": c, "scale": ml(_POS)}
    if c == "UniformPrior":
        a = draw(_LOC)
        return {"cls": c, "a": a, "b": a + draw(st.floats(0.1, 10.0))}
    a = draw(_LOC)
    return {"cls": c, "a": a, "b": a + draw(st.floats(0.1, 10.0)), "sigma": draw(st.floats(0.01, 1.0))}


@st.composite
def prior_logprob_cases(draw):
    group = draw(st.sampled_from(["uni", "uni", "uni", "mvn", "lkj", "wishart"]))
    case = {"q": draw(st.lists(Q, min_size=1, max_size=6)), "scalar_x": draw(st.booleans()), "normalise": False}
    if group == "uni":
        spec = draw(scalar_prior_specs())
        sup = UNIVARIATE[spec["cls"]][0]
        tfs = {"real": [None, None, "log", "affine"], "pos": [None, None, "exp", "softplus", "square"], "box": [None, "affine"]}[sup]
        case["tf"] = draw(st.sampled_from(tfs))
        case["neg"] = draw(st.booleans())
        case["normalise"] = spec["cls"] == "SmoothedBoxPrior" and draw(st.integers(0, 3)) == 0
    elif group == "mvn":
        k = draw(st.integers(1, 3))
        spec = {"cls": "MultivariateNormalPrior", "loc": draw(st.lists(_LOC, min_size=k, max_size=k)),
                "cov": draw(st.lists(st.floats(-1, 1), min_size=1, max_size=6)),
                "param": draw(st.sampled_from(["covariance_matrix", "precision_matrix", "scale_tril"]))}
        case["rows"] = draw(st.integers(1, 3))
        case["tf"] = draw(st.sampled_from([None, None, "affine", "log"]))
    elif group == "lkj":
        c = draw(st.sampled_from(["LKJCholeskyFactorPrior", "LKJPrior", "LKJCovariancePrior"]))
        spec = {"cls": c, "n": draw(st.integers(2, 4)), "eta": draw(st.one_of(st.sampled_from([0.5, 1.0, 2.0]), st.floats(0.2, 8.0)))}
        case["q"] = draw(st.lists(st.floats(0.05, 0.95), min_size=1, max_size=6))
        if c == "LKJCovariancePrior":
            a = draw(st.floats(0.05, 1.0))
            spec["sd_prior"] = {"cls": "SmoothedBoxPrior", "a": a, "b": a + draw(st.floats(0.1, 3.0)), "sigma": draw(st.floats(0.01, 0.5))}
            case["sd_q"] = draw(st.lists(Q, min_size=1, max_size=4))
        case["tf"] = None
        case["normalise"] = c == "LKJCholeskyFactorPrior" and spec["n"] == 2 and draw(st.integers(0, 3)) == 0
    else:
        n = draw(st.integers(1, 3))
        c = draw(st.sampled_from(["WishartPrior", "InverseWishartPrior"]))
        nu = draw(st.one_of(st.integers(1, 8).map(float), st.floats(0.5, 10.0)))
        if c == "WishartPrior":
            nu = n + nu  # the constructor demands nu > n
        spec = {"cls": c, "n": n, "nu": nu, "K": draw(st.lists(st.floats(-1, 1), min_size=1, max_size=6))}
        case["tf"] = None
    case["prior"] = spec
    return case


# =====================================================================================================
# 5. prior closures of every `*_prior` constructor argument; sample_from_prior; MLL term
# =====================================================================================================
# matrix-valued priors: (recipe, argument) -> (kind, number of tasks)
MATRIX_ARGS = {("Index", "prior"): ("covar", 3), ("MTK", "task_covar_prior"): ("covar", 2), ("LCM", "task_covar_prior"): ("covar", 2),
               ("MTGauss1", "task_prior"): ("covar", 2), ("MTBase", "task_correlation_prior"): ("corr", 2)}
# not enumerated: documented as unavailable
SKIP_ARGS = {
    ("MTGauss0", "task_prior"): "constructor raises 'Cannot set a `task_prior` if rank=0' (documented)",
    ("SM", "mixture_scales_prior"): "SpectralMixtureKernel logs 'Priors not implemented' and ignores the argument",
    ("SM", "mixture_means_prior"): "same", ("SM", "mixture_weights_prior"): "same",
}
PRIOR_ARGS = [(r, a) for r in RECIPES for a in ctor_args(r) if a.endswith("prior") and (r, a) not in SKIP_ARGS]


def _expand_spec(spec, shape):
    out = dict(spec)
    for k in UNIVARIATE[spec["cls"]][1]:
        out[k] = np.full(shape, spec[k]).tolist()
    return out


def _support_window(spec, lo, hi):
    sup = UNIVARIATE[spec["cls"]][0]
    a, b = {"real": (-6.0, 6.0), "pos": (1e-3, 1e2)}.get(sup, (None, None))
    if sup == "box":
        a, b = float(np.min(spec["a"])) + 1e-6, float(np.max(spec["b"])) - 1e-6
    if spec["cls"] == "HorseshoePrior":
        a = 1e-3
    return np.maximum(lo, a), np.minimum(hi, b)


def _window_value(lo, hi, q):
    """q -> a value strictly between finite lo < hi (log-spaced when both are positive and far apart)."""
    with np.errstate(invalid="ignore", divide="ignore"):
        lg = (lo > 0) & (hi / np.where(lo > 0, lo, 1.0) > 100)
        v = np.where(lg, np.exp(np.log(np.where(lo > 0, lo, 1.0)) + q * (np.log(hi) - np.log(np.where(lo > 0, lo, 1.0)))), lo + q * (hi - lo))
    return v


def run_closures(case, ctx: Ctx):
    recipe, arg = case["recipe"], case["arg"]
    batch = case["batch"] if RECIPES[recipe][2] else []
    spec = case["prior"]
    matrix = MATRIX_ARGS.get((recipe, arg))
    ctx.cls = f"{recipe}|{arg}|batch{len(batch)}"
    ctx.label(f"arg={recipe}.{arg}", f"prior={spec['cls']}", f"batch={len(batch)}")
    ctx.set_nontrivial(bool(batch) or case["pshape"] == "param" or matrix is not None)
    with ctx.observing("construct"):
        plain = build(recipe, batch)
        n0 = len(list(plain.named_priors()))
    if matrix is None and case["pshape"] == "param":
        # a prior whose batch shape equals the parameter's shape: find the shape from a scalar-prior build first
        with ctx.observing("construct", reject=(ValueError,), reject_match="Invalid input value for prior"):
            probe = build(recipe, batch, **{arg: build_prior(spec)})
            shapes = {tuple(cl(ow).shape) for _, ow, _, cl, _ in probe.named_priors()}
        pshape = sorted(shapes, key=len)[-1] if len(shapes) == 1 else ()
        if spec["cls"] == "SmoothedBoxPrior" and not pshape:
            pshape = ()
        spec_run = _expand_spec(spec, pshape) if pshape else spec
    else:
        spec_run = spec
    # constructors that assign an initial value (StudentTLikelihood: deg_free=7) validate it against the support of the prior
    with ctx.observing("construct", reject=(ValueError,), reject_match="Invalid input value for prior"):
        mod = build(recipe, batch, **{arg: build_prior(spec_run)})
        named = list(mod.named_priors())
    if not ctx.check("prior.registered", len(named) > n0, f"constructor argument {arg} registered no prior"):
        return
    for name, owner, prior, closure, setting in named:
        local = name.rsplit(".", 1)[-1]
        if matrix is not None:
            kind, t = matrix
            with ctx.observing("closure.call"):
                v = closure(owner)
            if not ctx.check("closure.returns_tensor", isinstance(v, torch.Tensor), f"closure of {name} returns {type(v).__name__}, not the value"):
                continue
            v_np = _np(v)
            if not ctx.check("closure.matrix_shape", v_np.shape == tuple(batch) + (t, t), f"{v_np.shape}", kind="shape"):
                continue
            # the matrix the class documents: IndexKernel "B B^T + diag(v)"; MultitaskGaussianLikelihood: task_noise_covar
            # (= factor factor^T) plus the global noise sigma^2 I
            if isinstance(owner, K.IndexKernel):
                Fm, dv = _np(owner.covar_factor), _np(owner.var)
                ctx.close("closure.matrix_value", v_np, Fm @ np.swapaxes(Fm, -1, -2) + dv[..., None] * np.eye(t), rtol=1e-9, atol=1e-11)
            elif isinstance(owner, L.MultitaskGaussianLikelihood):
                Fm, nz = _np(owner.task_noise_covar_factor), _np(owner.noise)
                ctx.close("closure.matrix_value", v_np, Fm @ np.swapaxes(Fm, -1, -2) + nz[..., None] * np.eye(t), rtol=1e-9, atol=1e-11)
            if kind == "corr":
                ctx.close("closure.corr_unit_diagonal", np.diagonal(v_np, axis1=-2, axis2=-1), np.ones(tuple(batch) + (t,)), rtol=1e-9, atol=1e-9)
            with ctx.observing("closure.prior_term"):
                lp = prior.log_prob(closure(owner))
            want = np.array([ref_logprob(spec, m_) for m_ in v_np.reshape(-1, t, t)]).reshape(tuple(batch))
            ctx.close("closure.prior_term", lp, want, rtol=1e-8, atol=1e-8)  # cond(task covariance) * eps
            if setting is None:
                expect_raises(ctx, "sample.no_setting_closure", lambda: owner.sample_from_prior(local), RuntimeError, "Must provide inverse transform")
                ctx.label("sample=no_setting_closure(documented)")
            continue
        # ---- scalar-valued priors -------------------------------------------------------------------------
        prop = prior_prop(local)
        pobj = getattr(type(owner), prop, None)
        settable = isinstance(pobj, property) and pobj.fset is not None
        cons = owner.constraint_for_parameter_name("raw_" + prop) if hasattr(owner, "raw_" + prop) else None
        with ctx.observing("closure.call"):
            cur = closure(owner)
        if not ctx.check("closure.returns_tensor", isinstance(cur, torch.Tensor), f"closure of {name} returns {type(cur).__name__}"):
            continue
        shape = tuple(cur.shape)
        lo, hi = cons_bounds(cons, shape)
        slo, shi = _support_window(spec, np.where(np.isfinite(lo), lo, -1e3), np.where(np.isfinite(hi), hi, 1e3))
        n = max(1, int(np.prod(shape)))

        def assign(val):
            if settable:
                setattr(owner, prop, torch.tensor(val))
            else:
                owner.initialize(**{prop: torch.tensor(val)})

        if bool((slo < shi).all()):
            v = _window_value(slo, shi, cyc(case["q"], n).reshape(shape))
            # Module.initialize validates the new value against a prior registered as "<parameter>_prior" (support and event
            # shape, e.g. SmoothedBoxPrior's event_shape (1,) vs a 2-task noise vector): documented refusal
            with ctx.observing("assign", reject=(ValueError,), reject_match="Invalid input value for prior"):
                assign(v)
                got = _np(closure(owner))
            readback_tol(ctx, "closure.returns_value", got, v, lo, hi)
            with ctx.observing("closure.prior_term"):
                lp = prior.log_prob(closure(owner))
            ctx.close("closure.prior_term", lp, ref_logprob(spec_run, v), rtol=1e-9, atol=1e-9)
            if setting is not None:
                w = _window_value(slo, shi, cyc(case["w"], n).reshape(shape))
                with ctx.observing("setting_closure"):
                    setting(owner, torch.tensor(w))
                    got = _np(getattr(owner, prop))
                readback_tol(ctx, "setting_closure.stores", got, w, lo, hi)
        else:
            ctx.label("value=prior_support_disjoint_from_bounds")
        # ---- sample_from_prior
        if setting is None:
            expect_raises(ctx, "sample.no_setting_closure", lambda: owner.sample_from_prior(local), RuntimeError, "Must provide inverse transform")
            ctx.label("sample=no_setting_closure(documented)")
            continue
        torch.manual_seed(case["torch_seed"])
        with ctx.observing("sample.reference"):
            exp = _np(prior.sample())
        try:
            want = np.broadcast_to(exp, shape)
        except ValueError:
            ctx.label("sample=shape_not_broadcastable")
            continue
        lo_m = np.where(np.isfinite(lo), lo + 1e-9 * np.abs(lo) + 1e-300, lo)
        hi_m = np.where(np.isfinite(hi), hi - 1e-9 * np.abs(hi), hi)
        before = {k: p.detach().clone() for k, p in owner.named_parameters()}
        torch.manual_seed(case["torch_seed"])
        if bool(((want > lo_m) & (want < hi_m) & np.isfinite(want)).all()):
            with ctx.observing("sample_from_prior"):
                owner.sample_from_prior(local)
                got, got_prop = _np(closure(owner)), _np(getattr(owner, prop))
            # softplus^-1 of a sample next to 0 loses relative accuracy in the *raw* value only; the value reads back to 1e-10
            readback_tol(ctx, "sample.stored", got, want, lo, hi)
            readback_tol(ctx, "sample.property_reads_sample", got_prop, want, lo, hi)
            ctx.label("sample=stored")
        elif bool(((want < lo) | (want > hi) | ~np.isfinite(want)).any()):
            expect_raises(ctx, "sample.oob_rejected", lambda: owner.sample_from_prior(local), RuntimeError, "out of bounds")
            ctx.check("sample.oob_unchanged", all(torch.equal(p.detach(), before[k]) for k, p in owner.named_parameters()),
                      "parameters changed by a refused sample_from_prior")
            ctx.label("sample=out_of_bounds_refused")
        else:
            ctx.label("sample=borderline_not_judged")


def _lkj_cov_spec(t):
    return {"cls": "LKJCovariancePrior", "n": t, "eta": 1.5, "sd_prior": {"cls": "SmoothedBoxPrior", "a": 0.05, "b": 3.0, "sigma": 0.2}}


def _matrix_spec(recipe, arg, eta=1.5, sd=None):
    kind, t = MATRIX_ARGS[(recipe, arg)]
    if kind == "corr":
        return {"cls": "LKJPrior", "n": t, "eta": eta}
    s = _lkj_cov_spec(t)
    s["eta"] = eta
    if sd:
        s["sd_prior"] = sd
    return s


_DEFAULT_SCALAR = [
    {"cls": "GammaPrior", "concentration": 2.0, "rate": 3.0},
    {"cls": "LogNormalPrior", "loc": 0.0, "scale": 0.75},
    {"cls": "NormalPrior", "loc": 0.5, "scale": 1.0},
    {"cls": "UniformPrior", "a": 0.2, "b": 3.0},
    {"cls": "SmoothedBoxPrior", "a": 0.1, "b": 2.0, "sigma": 0.05},
    {"cls": "HalfCauchyPrior", "scale": 1.0},
    {"cls": "HalfNormalPrior", "scale": 1.0},
    {"cls": "HorseshoePrior", "scale": 0.5},
]


def enumerate_closures(tier):
    for recipe, arg in PRIOR_ARGS:
        for batch in ([], [2]) if RECIPES[recipe][2] else ([],):
            if (recipe, arg) in MATRIX_ARGS:
                yield {"recipe": recipe, "arg": arg, "batch": batch, "prior": _matrix_spec(recipe, arg), "pshape": "scalar",
                       "q": [0.3], "w": [0.6], "torch_seed": 11}
                continue
            for i, spec in enumerate(_DEFAULT_SCALAR):
                for pshape in ("scalar", "param"):
                    yield {"recipe": recipe, "arg": arg, "batch": batch, "prior": spec, "pshape": pshape,
                           "q": [0.31, 0.62, 0.17], "w": [0.44, 0.23, 0.71], "torch_seed": 1000 + 7 * i + len(batch)}


@st.composite
def closure_cases(draw):
    recipe, arg = draw(st.sampled_from(PRIOR_ARGS))
    case = {"recipe": recipe, "arg": arg, "batch": draw(st.sampled_from([[], [2], [2, 3]])), "q": draw(QS), "w": draw(QS),
            "torch_seed": draw(SEED), "pshape": draw(st.sampled_from(["scalar", "param"]))}
    if (recipe, arg) in MATRIX_ARGS:
        a = draw(st.floats(0.01, 0.5))
        case["prior"] = _matrix_spec(recipe, arg, eta=draw(st.floats(0.3, 5.0)),
                                     sd={"cls": "SmoothedBoxPrior", "a": a, "b": a + draw(st.floats(0.5, 5.0)), "sigma": draw(st.floats(0.05, 1.0))})
    else:
        case["prior"] = draw(scalar_prior_specs(allow_batched=False))
    return case


# ---- the MLL term -------------------------------------------------------------------------------------
class _GP(gpytorch.models.ExactGP):
    def __init__(self, x, y, lik, mean, covar):
        super().__init__(x, y, lik)
        self.mean_module, self.covar_module = mean, covar

    def forward(self, x):
        return gpytorch.distributions.MultivariateNormal(self.mean_module(x), self.covar_module(x))


_MLL_PARAMS = ("constant", "outputscale", "lengthscale", "noise")
_MLL_RANGE = {"constant": (-2.0, 2.0), "outputscale": (0.05, 10.0), "lengthscale": (0.1, 5.0), "noise": (1e-3, 2.0)}


def _mll_value(name, q):
    lo, hi = _MLL_RANGE[name]
    q = np.asarray(q, float)
    if lo < 0:  # keep away from exactly 0 where the horseshoe density is infinite
        v = lo + q * (hi - lo)
        return np.where(np.abs(v) < 1e-3, 1e-3, v)
    return lo + q * (hi - lo) if lo < 0 else np.exp(math.log(lo) + q * (math.log(hi) - math.log(lo)))


def run_mll_term(case, ctx: Ctx):
    batch = case["batch"]
    B = _B(batch)
    ctx.cls = f"mll|batch{len(batch)}|" + ",".join(sorted(k for k, v in case["priors"].items() if v))
    x, y = torch.tensor(case["x"]), torch.tensor(case["y"])
    nb = int(np.prod(batch)) if batch else 1
    vals = {
        "constant": _mll_value("constant", cyc(case["vals"]["constant"], nb)).reshape(tuple(batch)),
        "outputscale": _mll_value("outputscale", cyc(case["vals"]["outputscale"], nb)).reshape(tuple(batch)),
        "lengthscale": _mll_value("lengthscale", cyc(case["vals"]["lengthscale"], nb * 2)).reshape(tuple(batch) + (1, 2)),
        "noise": _mll_value("noise", cyc(case["vals"]["noise"], nb)).reshape(tuple(batch) + (1,)),
    }

    def make(with_priors):
        pr = {k: (build_prior(case["priors"][k]) if with_priors and case["priors"].get(k) else None) for k in _MLL_PARAMS}
        lik = L.GaussianLikelihood(noise_prior=pr["noise"], batch_shape=B)
        gp = _GP(x, y, lik, M.ConstantMean(constant_prior=pr["constant"], batch_shape=B),
                 K.ScaleKernel(K.RBFKernel(ard_num_dims=2, lengthscale_prior=pr["lengthscale"], batch_shape=B),
                               outputscale_prior=pr["outputscale"], batch_shape=B))
        gp.mean_module.constant = torch.tensor(vals["constant"])
        gp.covar_module.outputscale = torch.tensor(vals["outputscale"])
        gp.covar_module.base_kernel.lengthscale = torch.tensor(vals["lengthscale"])
        lik.noise = torch.tensor(vals["noise"])
        gp.train()
        lik.train()
        return gpytorch.mlls.ExactMarginalLogLikelihood(lik, gp)(gp(x), y)

    with ctx.observing("mll"):
        with_p, without = _np(make(True)), _np(make(False))
    want = np.zeros(tuple(batch))
    for k in _MLL_PARAMS:
        sp = case["priors"].get(k)
        if sp:
            lp = np.asarray(ref_logprob(sp, vals[k]), float)
            lp = np.broadcast_to(lp, vals[k].shape) if sp["cls"] != "SmoothedBoxPrior" else lp
            want = want + lp.reshape(tuple(batch) + (-1,)).sum(-1)
    n = len(case["y"])
    # one 3x3 Cholesky on both sides cancels; prior terms are closed form
    ctx.close("mll.prior_terms", (with_p - without) * n, want, rtol=1e-8, atol=1e-8)
    ctx.label(f"npriors={sum(1 for v in case['priors'].values() if v)}", f"batch={len(batch)}")
    ctx.set_nontrivial(sum(1 for v in case["priors"].values() if v) >= 2 or bool(batch))


@st.composite
def mll_cases(draw):
    n = draw(st.integers(2, 4))
    case = {"batch": draw(st.sampled_from([[], [], [2]])),
            "x": [[draw(LAT), draw(LAT)] for _ in range(n)], "y": [draw(LAT) for _ in range(n)],
            "vals": {k: draw(st.lists(Q, min_size=1, max_size=4)) for k in _MLL_PARAMS}, "priors": {}}
    for k in _MLL_PARAMS:
        if draw(st.booleans()):
            # SmoothedBoxPrior treats the last dimension as its event dimension: on the trailing-dimension-free parameters of a
            # batched model (constant, outputscale: shape = batch shape) it would sum over the batch - not a per-model prior
            classes = [c for c in UNIVARIATE if c != "UniformPrior" and (k == "constant" and UNIVARIATE[c][0] == "real" or k != "constant")
                       and not (c == "SmoothedBoxPrior" and case["batch"] and k in ("constant", "outputscale"))]
            case["priors"][k] = draw(scalar_prior_specs(classes=tuple(classes), allow_batched=False))
        else:
            case["priors"][k] = None
    return case



RULE = ("constraint cases = class x transform choice x scalar|tensor bounds x 2-6 raw doubles over the whole finite range (target: |raw|); "
        "setter cases = (registry module, discovered property) x batch shape x constraint (default or generated via the constructor) x value "
        "form; histories = op lists (set / initialize / initialize raw / optimiser step with lr up to 1e290 / sample_from_prior) over 3 "
        "composite models; prior cases = prior class x generated parameters x points x transform=; closure cases = every *_prior constructor "
        "argument x batch x prior. Non-trivial: |raw| > 30 or tensor-valued bounds (constraints); batch-shaped or custom-constrained "
        "parameter (setters); >= 2 op kinds (histories); transform / batched parameters / matrix-valued prior (densities); batch-shaped "
        "module, parameter-shaped prior or matrix prior (closures); >= 2 priors or batch (MLL term). distinct = distinct canonical case.")

SPEC = PropertySpec(
    pid="C17",
    rule=RULE,
    assumptions=[
        "float64; CPU; no pyro (pyro_sample_from_prior / pyro_load_from_samples not exercised)",
        "bounds |b| <= 1e3, widths in [1e-3, 1e3]; inverse(transform(raw)) asserted for |raw| <= 10 with the rounding of the constrained "
        "value amplified by 1/slope added to the 1e-9 tolerance; monotonicity up to the closed-form tolerance (torch's softplus threshold)",
        "transform=torch.exp: finiteness demanded only for |raw| <= 700 (overflow to inf lies in the closed extended interval)",
        "a plain float assigned through a setter is judged only where the setter is annotated to take one (or accepts it); "
        "ConstantKernel.constant is assigned full-size tensors only (its setter documents a tensor of the parameter's size)",
        "SmoothedBoxPrior reference = flat box with Gaussian tails of s.d. sigma, normalised (what `_M` 'normalization factor' and the "
        "tails attribute state; the docstring's exponent 'd^2 / sqrt(2 sigma^2)' is taken as a typo); LKJ reference = LKJ (2009) density of "
        "the Cholesky factor; LKJCovariancePrior with SmoothedBoxPrior s.d. prior (the documented usage); Wishart/InverseWishart = scipy "
        "(InverseWishart df = nu + n - 1)",
        "not asserted: Interval.intersect (raises for any two distinct objects - bound-method comparison - reported separately), "
        "SpectralMixtureKernel *_prior arguments (logged as not implemented), MultitaskGaussianLikelihood(rank=0, task_prior) (documented error)",
    ],
    subchecks=[
        Subcheck("constraint.transform", run_constraint, strategy=constraint_cases, quick=4000, thorough=200000, min_shard=200),
        Subcheck("setter.roundtrip", run_setter, strategy=setter_cases, enumerate=enumerate_setter_pairs, quick=5000, thorough=100000,
                 min_shard=100, exhaustive_note="every discovered (module, property) pair x batch shape {(), (2,)} x {float, full tensor} once"),
        Subcheck("history.bounds", run_history, strategy=history_cases, quick=1500, thorough=40000, min_shard=50),
        Subcheck("prior.log_prob", run_prior_logprob, strategy=prior_logprob_cases, quick=4000, thorough=100000, min_shard=100),
        Subcheck("prior.closures", run_closures, strategy=closure_cases, enumerate=enumerate_closures, quick=1500, thorough=40000,
                 min_shard=50, exhaustive_note="every *_prior constructor argument of every registry class x batch {(), (2,)} x 8 prior classes x {scalar, parameter-shaped} prior once"),
        Subcheck("prior.mll_term", run_mll_term, strategy=mll_cases, quick=600, thorough=15000, min_shard=40),
    ],
)

"""C18 - persistence round trips reproduce the model exactly.

A case is {entry, arch, seeds: {data, src, dst}, history, dst_warm}.  `entry` names a recipe of the registry below; `arch`
is everything the user would call "the architecture" (classes, shapes, which parameters carry which prior / constraint
classes, transforms); the *values* of everything a model carries (parameter values, constraint bounds, prior parameters,
grids, random features, active_dims, inducing points, variational parameters) are a deterministic function of an integer
seed, so that the same recipe with another seed is "a freshly constructed model of the same architecture" that differs in
every stored number.  Training data, fixed-noise vectors and transformed classification targets are constructor *data*
(seed `data`) and are handed to both.

Per case: build the original (seed src), run the history, take the save point with three mechanisms
    (a) state_dict() -> torch.save -> torch.load -> load_state_dict(strict=True) into the recipe built with seed dst
        (which has first been observed with its own values when dst_warm, so that stale caches would show),
    (b) pickle.dumps / pickle.loads,   (c) copy.deepcopy,
then observe the original and every restored model with the same procedure and compare: eval-mode prediction made
immediately (caches as carried), training-mode output, objective (exact MLL with prior terms and added loss terms /
ELBO / sum MLL), the gradient of the objective for every parameter, and a second eval-mode prediction + likelihood output.
Bitwise for pickle / deepcopy, <= 1e-12 for the state_dict route (both sides run the same float64 code on the same data)."""
from __future__ import annotations

import copy
import io
import pickle
import random
import zlib
from dataclasses import dataclass
from typing import Callable, Optional

import torch
from hypothesis import strategies as st

import gpytorch
from gpytorch import constraints as C
from gpytorch import kernels as K
from gpytorch import likelihoods as L
from gpytorch import means as M
from gpytorch import priors as P
from gpytorch import variational as V
from gpytorch.distributions import MultitaskMultivariateNormal, MultivariateNormal
from linear_operator.utils.errors import NanError, NotPSDError

from pbt.core import Ctx, Discard, LibraryFailure, PropertySpec, Subcheck

T = torch.tensor
F64 = torch.float64


# ---------------------------------------------------------------------------------------------------
# sources of structure (Pick) and of values (Vals)
# ---------------------------------------------------------------------------------------------------
class HypPick:
    """structure choices drawn by Hypothesis"""

    def __init__(self, draw):
        self.draw = draw

    def choice(self, xs):
        return self.draw(st.sampled_from(list(xs)))

    def int(self, lo, hi):
        return self.draw(st.integers(lo, hi))

    def bool(self):
        return self.draw(st.booleans())


class SeedPick:
    """structure choices from a seeded generator (deterministic enumeration tier)"""

    def __init__(self, seed):
        self.r = random.Random(seed)

    def choice(self, xs):
        xs = list(xs)
        return xs[self.r.randrange(len(xs))]

    def int(self, lo, hi):
        return self.r.randint(lo, hi)

    def bool(self):
        return self.r.random() < 0.5


class Vals:
    """every stored number of a model is drawn from here: a pure function of the seed and of the call sequence"""

    def __init__(self, seed):
        self.g = torch.Generator().manual_seed(int(seed))

    def f(self, lo, hi):
        return float(torch.rand((), generator=self.g, dtype=F64)) * (hi - lo) + lo

    def t(self, shape, lo, hi):
        return torch.rand(tuple(shape), generator=self.g, dtype=F64) * (hi - lo) + lo

    def n(self, shape, scale=1.0):
        return torch.randn(tuple(shape), generator=self.g, dtype=F64) * scale

    def perm(self, n):
        return torch.randperm(n, generator=self.g).tolist()

    def dims(self, D, k):
        """k sorted distinct active dimensions out of D"""
        return tuple(sorted(self.perm(D)[:k]))

    def spd(self, n, jitter=0.5):
        a = self.n((n, n), 0.5)
        return a @ a.T + jitter * torch.eye(n, dtype=F64)

    def distinct_points(self, m, d, lo=-2.0, hi=2.0):
        """m points, pairwise at least 0.35 apart in the first coordinate (inducing points: keeps K_zz well conditioned)"""
        base = torch.linspace(lo, hi, m, dtype=F64)
        width = (hi - lo) / max(m - 1, 1)
        first = base + self.t((m,), -0.2, 0.2) * width
        rest = self.t((m, d - 1), lo, hi)
        return torch.cat([first[:, None], rest], -1)[torch.tensor(self.perm(m))]


# ---------------------------------------------------------------------------------------------------
# decorations: priors and constraints with seed-dependent parameters
# ---------------------------------------------------------------------------------------------------
POS_PRIORS = ["Normal", "LogNormal", "Gamma", "HalfNormal", "HalfCauchy", "Uniform", "SmoothedBox", "Horseshoe"]
REAL_PRIORS = ["Normal", "Uniform", "SmoothedBox"]
POS_CONSTRAINTS = ["Positive", "PositiveExp", "GreaterThan", "GreaterThanExp", "Interval", "IntervalInit"]
REAL_CONSTRAINTS = ["Interval", "LessThan", "GreaterThan"]


def make_prior(kind, v: Vals, positive=True, size=None):
    if kind == "Normal":
        return P.NormalPrior(v.f(0.5, 2.0) if positive else v.f(-1, 1), v.f(0.5, 2.0))
    if kind == "LogNormal":
        return P.LogNormalPrior(v.f(-1, 1), v.f(0.5, 2.0))
    if kind == "Gamma":
        return P.GammaPrior(v.f(1.0, 3.0), v.f(0.5, 3.0))
    if kind == "HalfNormal":
        return P.HalfNormalPrior(v.f(0.5, 3.0))
    if kind == "HalfCauchy":
        return P.HalfCauchyPrior(v.f(0.5, 3.0))
    if kind == "Uniform":
        # wide enough that every value the recipes use (and a few clipped optimiser steps) stays inside the support
        return P.UniformPrior(v.f(0.0, 0.01), v.f(50.0, 100.0)) if positive else P.UniformPrior(v.f(-90.0, -50.0), v.f(50.0, 90.0))
    if kind == "SmoothedBox":
        return P.SmoothedBoxPrior(v.f(0.01, 0.1), v.f(3.0, 6.0), sigma=v.f(0.05, 0.5)) if positive else \
            P.SmoothedBoxPrior(v.f(-3.0, -1.0), v.f(1.0, 3.0), sigma=v.f(0.05, 0.5))
    if kind == "Horseshoe":
        return P.HorseshoePrior(v.f(0.1, 2.0))
    if kind == "MVN":
        return P.MultivariateNormalPrior(v.t((size,), 0.5, 1.5), covariance_matrix=v.spd(size))
    raise KeyError(kind)


def make_constraint(kind, v: Vals, positive=True):
    if positive:
        if kind == "Positive":
            return C.Positive()
        if kind == "PositiveExp":
            return C.Positive(transform=torch.exp, inv_transform=torch.log)
        if kind == "GreaterThan":
            return C.GreaterThan(v.f(1e-4, 5e-2))
        if kind == "GreaterThanExp":
            return C.GreaterThan(v.f(1e-4, 5e-2), transform=torch.exp, inv_transform=torch.log)
        if kind == "Interval":
            return C.Interval(v.f(1e-3, 5e-2), v.f(20.0, 60.0))
        if kind == "IntervalInit":
            return C.Interval(v.f(1e-3, 5e-2), v.f(20.0, 60.0), initial_value=v.f(0.5, 1.5))
    else:
        if kind == "Interval":
            return C.Interval(v.f(-9.0, -5.0), v.f(5.0, 9.0))
        if kind == "LessThan":
            return C.LessThan(v.f(5.0, 9.0))
        if kind == "GreaterThan":
            return C.GreaterThan(v.f(-9.0, -5.0))
    raise KeyError(kind)


class Deco:
    """hands out `<name>_prior` / `<name>_constraint` constructor kwargs following the arch's decoration list"""

    def __init__(self, slots, v: Vals):
        self.slots = list(slots or [])
        self.v = v
        self.i = 0
        self.used_priors = []
        self.used_constraints = []

    def _next(self):
        if not self.slots:
            return None, None
        s = self.slots[self.i % len(self.slots)]
        self.i += 1
        return s[0], s[1]

    def kw(self, name, positive=True, prior=True, constraint=True, prior_name=None, mvn_size=None):
        pk, ck = self._next()
        out = {}
        if pk is not None and prior:
            if not positive and pk not in REAL_PRIORS:
                pk = "Normal"
            if pk == "MVN" and mvn_size is None:
                pk = "Gamma"
            out[prior_name or f"{name}_prior"] = make_prior(pk, self.v, positive, mvn_size)
            self.used_priors.append(pk)
        if ck is not None and constraint:
            if not positive and ck not in REAL_CONSTRAINTS:
                ck = "Interval"
            if positive and ck not in POS_CONSTRAINTS:
                ck = "Interval"
            out[f"{name}_constraint"] = make_constraint(ck, self.v, positive)
            self.used_constraints.append(ck)
        return out


def deco_slots(p, rich=True):
    """0-3 decoration slots (prior kind | None, constraint kind | None); an empty list = library defaults everywhere"""
    n = p.choice([0, 1, 2, 3] if rich else [0, 0, 1])
    return [[p.choice([None] + POS_PRIORS + ["MVN"]), p.choice([None] + POS_CONSTRAINTS)] for _ in range(n)]


def randomize(model, v: Vals):
    """give every constrained raw parameter a seed-dependent value inside a comfortable window of its constraint, and
    every unconstrained parameter that the builders have not set themselves a seed-dependent perturbation"""
    with torch.no_grad():
        for mod in model.modules():
            cons = getattr(mod, "_constraints", None)
            for pname, p in mod._parameters.items():
                if p is None or getattr(p, "_c18_set", False):
                    continue
                c = cons.get(pname + "_constraint") if cons is not None else None
                if c is not None:
                    lo = c.lower_bound.to(p.dtype)
                    hi = c.upper_bound.to(p.dtype)
                    pos = bool((lo >= 0).all())
                    a, b = (0.3, 2.0) if pos else (-1.0, 1.0)
                    wlo = torch.where(torch.isfinite(lo), lo + 1e-3 * (1 + lo.abs()), torch.full_like(lo, a)).clamp_min(a)
                    whi = torch.where(torch.isfinite(hi), hi - 1e-3 * (1 + hi.abs()), torch.full_like(hi, b)).clamp_max(b)
                    whi = torch.maximum(whi, wlo)
                    target = wlo + (whi - wlo) * v.t(p.shape, 0.0, 1.0)
                    p.copy_(c.inverse_transform(target))
                else:
                    p.add_(v.n(p.shape, 0.3))


def mark_set(*params):
    for p in params:
        p._c18_set = True


# ---------------------------------------------------------------------------------------------------
# model classes (module level: pickling must exercise the library, not a local-class limitation)
# ---------------------------------------------------------------------------------------------------
class GPModel(gpytorch.models.ExactGP):
    def __init__(self, train_x, train_y, likelihood, mean_module, covar_module):
        super().__init__(train_x, train_y, likelihood)
        self.mean_module = mean_module
        self.covar_module = covar_module

    def forward(self, *x):
        return MultivariateNormal(self.mean_module(*x), self.covar_module(*x))


class MultitaskGPModel(gpytorch.models.ExactGP):
    def __init__(self, train_x, train_y, likelihood, mean_module, covar_module):
        super().__init__(train_x, train_y, likelihood)
        self.mean_module = mean_module
        self.covar_module = covar_module

    def forward(self, x):
        return MultitaskMultivariateNormal(self.mean_module(x), self.covar_module(x))


class BatchIndependentMultitaskGPModel(gpytorch.models.ExactGP):
    def __init__(self, train_x, train_y, likelihood, mean_module, covar_module):
        super().__init__(train_x, train_y, likelihood)
        self.mean_module = mean_module
        self.covar_module = covar_module

    def forward(self, x):
        return MultitaskMultivariateNormal.from_batch_mvn(MultivariateNormal(self.mean_module(x), self.covar_module(x)))


class HadamardGPModel(gpytorch.models.ExactGP):
    def __init__(self, train_inputs, train_y, likelihood, mean_module, covar_module, task_covar_module):
        super().__init__(train_inputs, train_y, likelihood)
        self.mean_module = mean_module
        self.covar_module = covar_module
        self.task_covar_module = task_covar_module

    def forward(self, x, i):
        return MultivariateNormal(self.mean_module(x), self.covar_module(x).mul(self.task_covar_module(i)))


class SVGPModel(gpytorch.models.ApproximateGP):
    """the documented pattern: the strategy is created inside __init__ with `self` as its model"""

    def __init__(self, make_strategy, mean_module, covar_module, likelihood):
        super().__init__(make_strategy(self))
        self.mean_module = mean_module
        self.covar_module = covar_module
        self.likelihood = likelihood

    def forward(self, x):
        return MultivariateNormal(self.mean_module(x), self.covar_module(x))


class NNSVGPModel(gpytorch.models.ApproximateGP):
    def __init__(self, make_strategy, mean_module, covar_module, likelihood):
        super().__init__(make_strategy(self))
        self.mean_module = mean_module
        self.covar_module = covar_module
        self.likelihood = likelihood

    def forward(self, x):
        return MultivariateNormal(self.mean_module(x), self.covar_module(x))

    def __call__(self, x, prior=False, **kwargs):  # as in the VNNGP example of the documentation
        if x is not None and x.dim() == 1:
            x = x.unsqueeze(-1)
        return self.variational_strategy(x=x, prior=False, **kwargs)


# ---------------------------------------------------------------------------------------------------
# registry
# ---------------------------------------------------------------------------------------------------
@dataclass
class Entry:
    name: str
    family: str  # exact | svgp | list
    arch: Callable  # Pick -> arch dict (JSON)
    build: Callable  # (arch, Vals, data) -> model (with .likelihood)
    data: Optional[Callable] = None  # (arch, Vals) -> data dict; default: generic regression data
    group: str = "exact.kernels"
    random_buffer: bool = False  # the model carries a randomly drawn buffer / parameter initialisation
    needs_forward: bool = False  # buffers are created by the first call: the original always has one call before the save
    warm_only: bool = False  # ... and so has the destination of the state_dict route
    exact_tol: float = 0.0  # tolerance of the pickle / deepcopy comparison (0 = bitwise)
    # the model keeps an eval-mode cache as a plain attribute (GridKernel._cached_kernel_mat): after a prediction made with autograd
    # enabled it is a non-leaf tensor, which torch documents as not deep-copyable
    graph_caches: bool = False


REGISTRY: dict[str, Entry] = {}


def register(name, family, group, arch, build, **kw):
    REGISTRY[name] = Entry(name=name, family=family, arch=arch, build=build, group=group, **kw)


def generic_data(arch, v: Vals):
    d, n, ns = arch.get("d", 2), arch.get("n", 6), arch.get("ns", 3)
    bs = list(arch.get("batch", []))
    X = v.t((n, d), -2.0, 2.0)
    return {"train_inputs": (X,), "y": v.t(bs + [n], -1.5, 1.5), "test_inputs": (v.t((ns, d), -2.5, 2.5),), "test_noise": v.t((ns,), 0.05, 0.5),
            "fixed_noise": v.t((n,), 0.05, 0.5)}


def base_arch(p, d_choices=(1, 2, 3), batch=False):
    return {"d": p.choice(d_choices), "n": p.int(4, 7), "ns": p.int(1, 3), "mean": p.choice(["Zero", "Constant", "Constant", "Linear"]),
            "lik": p.choice(["Gaussian", "Gaussian", "Gaussian", "FixedNoise", "FixedNoise+"]), "deco": deco_slots(p),
            "batch": p.choice([[], [], [], [2]]) if batch else []}


def build_mean(arch, v: Vals, D: Deco, d=None):
    bs = torch.Size(arch.get("batch", []))
    kind = arch.get("mean", "Constant")
    if kind == "Zero":
        return M.ZeroMean(batch_shape=bs)
    if kind == "Constant":
        return M.ConstantMean(batch_shape=bs, **D.kw("constant", positive=False))
    m = M.LinearMean(d if d is not None else arch["d"], batch_shape=bs)
    return m


def build_likelihood(arch, v: Vals, D: Deco, data):
    bs = torch.Size(arch.get("batch", []))
    kind = arch.get("lik", "Gaussian")
    if kind == "Gaussian":
        return L.GaussianLikelihood(batch_shape=bs, **D.kw("noise"))
    if kind == "GaussianMissing":
        return L.GaussianLikelihoodWithMissingObs(batch_shape=bs, **D.kw("noise"))
    if kind in ("FixedNoise", "FixedNoise+"):
        return L.FixedNoiseGaussianLikelihood(noise=data["fixed_noise"], learn_additional_noise=kind.endswith("+"), batch_shape=bs,
                                              **(D.kw("noise") if kind.endswith("+") else {}))
    raise KeyError(kind)


def finish_exact(arch, v, D, data, covar, cls=GPModel, lik=None, mean=None):
    lik = lik if lik is not None else build_likelihood(arch, v, D, data)
    mean = mean if mean is not None else build_mean(arch, v, D)
    ti = data["train_inputs"]
    model = cls(ti[0] if len(ti) == 1 else ti, data["y"], lik, mean, covar)
    randomize(model, v)
    model._c18 = {"priors": sorted(set(D.used_priors)), "constraints": sorted(set(D.used_constraints))}
    return model


def maybe_scale(arch, D, k):
    if arch.get("scale", True):
        return K.ScaleKernel(k, batch_shape=torch.Size(arch.get("batch", [])), **D.kw("outputscale"))
    return k


def stationary_kwargs(arch, v, D, name="lengthscale"):
    """ard / active_dims / batch kwargs shared by the kernels with a lengthscale"""
    d = arch["d"]
    kw = {"batch_shape": torch.Size(arch.get("batch", []))}
    dk = d
    if arch.get("ad") and d >= 2:
        dk = d - 1
        kw["active_dims"] = v.dims(d, dk)  # a buffer: differs between the seeds and travels in the state_dict
    if arch.get("ard"):
        kw["ard_num_dims"] = dk
    kw.update(D.kw(name, mvn_size=dk if arch.get("ard") else 1))
    return kw, dk


def _simple_kernel(make):
    def build(arch, v, data):
        D = Deco(arch["deco"], v)
        kw, dk = stationary_kwargs(arch, v, D)
        k = make(arch, v, D, kw, dk)
        return finish_exact(arch, v, D, data, maybe_scale(arch, D, k))

    return build


def _simple_arch(extra=None, batch=True, d_choices=(1, 2, 3)):
    def arch(p):
        a = base_arch(p, d_choices=d_choices, batch=batch)
        a.update(ard=p.bool(), ad=p.choice([False, False, True]), scale=p.choice([True, True, False]))
        if extra:
            a.update(extra(p))
        return a

    return arch


register("exact.rbf", "exact", "exact.kernels", _simple_arch(), _simple_kernel(lambda a, v, D, kw, dk: K.RBFKernel(**kw)))
register("exact.matern", "exact", "exact.kernels", _simple_arch(lambda p: {"nu": p.choice([0.5, 1.5, 2.5])}),
         _simple_kernel(lambda a, v, D, kw, dk: K.MaternKernel(nu=a["nu"], **kw)))
register("exact.rq", "exact", "exact.kernels", _simple_arch(),
         _simple_kernel(lambda a, v, D, kw, dk: K.RQKernel(**D.kw("alpha", prior=False), **kw)))
register("exact.periodic", "exact", "exact.kernels", _simple_arch(),
         _simple_kernel(lambda a, v, D, kw, dk: K.PeriodicKernel(**D.kw("period_length"), **kw)))
register("exact.piecewise_polynomial", "exact", "exact.kernels", _simple_arch(lambda p: {"q": p.int(0, 3)}),
         _simple_kernel(lambda a, v, D, kw, dk: K.PiecewisePolynomialKernel(q=a["q"], **kw)))


def _nolength(arch, v, D, with_ard=False):
    """kwargs for kernels without a lengthscale"""
    kw, dk = stationary_kwargs(dict(arch, ard=arch.get("ard") and with_ard), v, Deco([], v))
    kw.pop("lengthscale_prior", None)
    kw.pop("lengthscale_constraint", None)
    return kw, dk


def _build_linear(arch, v, data):
    D = Deco(arch["deco"], v)
    kw, dk = _nolength(arch, v, D, with_ard=True)
    k = K.LinearKernel(**kw, **D.kw("variance"))
    return finish_exact(arch, v, D, data, maybe_scale(arch, D, k))


def _build_poly(arch, v, data):
    D = Deco(arch["deco"], v)
    kw, dk = _nolength(arch, v, D)
    k = K.PolynomialKernel(power=arch["power"], **kw, **D.kw("offset"))
    return finish_exact(arch, v, D, data, maybe_scale(arch, D, k))


def _build_cosine(arch, v, data):
    D = Deco(arch["deco"], v)
    kw, dk = _nolength(arch, v, D)
    k = K.CosineKernel(**kw, **D.kw("period_length"))
    # the cosine kernel is positive semi-definite only together with something else in d > 1: sum with an RBF
    k2 = K.RBFKernel(batch_shape=kw["batch_shape"], **D.kw("lengthscale"))
    return finish_exact(arch, v, D, data, maybe_scale(arch, D, k) + K.ScaleKernel(k2, batch_shape=kw["batch_shape"]))


def _build_constant(arch, v, data):
    D = Deco(arch["deco"], v)
    bs = torch.Size(arch.get("batch", []))
    k = K.ConstantKernel(batch_shape=bs, **D.kw("constant"))
    k2 = K.RBFKernel(batch_shape=bs, **D.kw("lengthscale"))
    return finish_exact(arch, v, D, data, k + k2 if arch["sum"] else k * k2)


register("exact.linear", "exact", "exact.kernels", _simple_arch(), _build_linear)
register("exact.polynomial", "exact", "exact.kernels", _simple_arch(lambda p: {"power": p.int(1, 3)}), _build_poly)
register("exact.cosine", "exact", "exact.kernels", _simple_arch(), _build_cosine)
register("exact.constant", "exact", "exact.kernels", _simple_arch(lambda p: {"sum": p.bool()}), _build_constant)


# ---- spectral / random-feature kernels ---------------------------------------------------------------
def _build_sm(arch, v, data):
    D = Deco(arch["deco"], v)
    d, q = arch["d"], arch["q"]
    bs = torch.Size(arch.get("batch", []))
    con = arch["init"] != "from_data"  # initialize_from_data writes values that a generated lower bound may exclude (documented refusal)
    k = K.SpectralMixtureKernel(num_mixtures=q, ard_num_dims=d, batch_shape=bs, **D.kw("mixture_scales", prior=False, constraint=con),
                                **D.kw("mixture_means", prior=False, constraint=con),
                                **D.kw("mixture_weights", prior=False, constraint=con))  # "Priors not implemented for SpectralMixtureKernel"
    if arch["init"] == "from_data":
        k.initialize_from_data(data["train_inputs"][0], data["y"].reshape(-1, data["y"].shape[-1])[0])
    return finish_exact(arch, v, D, data, k)


def _build_sd(arch, v, data):
    D = Deco(arch["deco"], v)
    kw, dk = stationary_kwargs(dict(arch, ard=False, ad=False), v, D)
    k = K.SpectralDeltaKernel(num_dims=arch["d"], num_deltas=arch["deltas"], **D.kw("Z", prior=False), **kw)
    return finish_exact(arch, v, D, data, maybe_scale(arch, D, k))


def _build_rff(lazy):
    def build(arch, v, data):
        D = Deco(arch["deco"], v)
        kw, dk = stationary_kwargs(dict(arch, ad=False), v, D)
        k = K.RFFKernel(num_samples=arch["samples"], num_dims=None if lazy else arch["d"], **kw)
        return finish_exact(arch, v, D, data, maybe_scale(arch, D, k))

    return build


register("exact.spectral_mixture", "exact", "exact.kernels",
         _simple_arch(lambda p: {"q": p.int(1, 3), "init": p.choice(["values", "from_data"]), "lik": "Gaussian"}), _build_sm)
register("exact.spectral_delta", "exact", "exact.kernels", _simple_arch(lambda p: {"deltas": p.int(3, 8)}), _build_sd, random_buffer=True)
register("exact.rff_eager", "exact", "exact.kernels", _simple_arch(lambda p: {"samples": p.int(2, 9)}), _build_rff(False), random_buffer=True)
register("exact.rff_lazy", "exact", "exact.kernels", _simple_arch(lambda p: {"samples": p.int(2, 9)}), _build_rff(True), random_buffer=True,
         needs_forward=True, warm_only=True)


# ---- kernels with special inputs -----------------------------------------------------------------------
def _unit_ball_data(arch, v):
    dat = generic_data(arch, v)
    dat["train_inputs"] = (dat["train_inputs"][0] / 5.0,)
    dat["test_inputs"] = (dat["test_inputs"][0] / 5.0,)
    return dat


def _build_arc(arch, v, data):
    D = Deco(arch["deco"], v)
    bs = torch.Size(arch.get("batch", []))
    base = K.MaternKernel(nu=2.5, batch_shape=bs, **D.kw("lengthscale"))
    k = K.ArcKernel(base, ard_num_dims=arch["d"] if arch["ard"] else None, batch_shape=bs, **D.kw("angle", constraint=False), **D.kw("radius", constraint=False))
    return finish_exact(arch, v, D, data, maybe_scale(arch, D, k))


def _build_cylindrical(arch, v, data):
    D = Deco(arch["deco"], v)
    bs = torch.Size(arch.get("batch", []))
    base = K.MaternKernel(nu=2.5, batch_shape=bs, **D.kw("lengthscale"))
    k = K.CylindricalKernel(arch["weights"], base, batch_shape=bs, **D.kw("angular_weights"), **D.kw("alpha"), **D.kw("beta"))
    return finish_exact(arch, v, D, data, maybe_scale(arch, D, k))


def _hamming_data(arch, v):
    n, ns, seq, vocab = arch["n"], arch["ns"], arch["seq"], arch["vocab"]
    bs = list(arch.get("batch", []))

    def cat(m):
        idx = (v.t((m, seq), 0.0, 1.0) * vocab).long().clamp_max(vocab - 1)
        return torch.nn.functional.one_hot(idx, vocab).reshape(m, seq * vocab).to(F64)

    return {"train_inputs": (cat(n),), "y": v.t(bs + [n], -1.5, 1.5), "test_inputs": (cat(ns),), "test_noise": v.t((ns,), 0.05, 0.5),
            "fixed_noise": v.t((n,), 0.05, 0.5)}


def _build_hamming(arch, v, data):
    D = Deco(arch["deco"], v)
    bs = torch.Size(arch.get("batch", []))
    k = K.HammingIMQKernel(vocab_size=arch["vocab"], batch_shape=bs, **D.kw("alpha"), **D.kw("beta"))
    return finish_exact(dict(arch, mean="Constant" if arch["mean"] == "Linear" else arch["mean"]), v, D, data, maybe_scale(arch, D, k))


def _dist_data(arch, v):
    dat = generic_data(arch, v)
    d = arch["d"]
    dat["train_inputs"] = (torch.cat([dat["train_inputs"][0], v.t((arch["n"], d), -2.0, 0.0)], -1),)
    dat["test_inputs"] = (torch.cat([dat["test_inputs"][0], v.t((arch["ns"], d), -2.0, 0.0)], -1),)
    return dat


def _build_dist(arch, v, data):
    D = Deco(arch["deco"], v)
    bs = torch.Size(arch.get("batch", []))
    k = K.GaussianSymmetrizedKLKernel(batch_shape=bs, **D.kw("lengthscale"))
    return finish_exact(dict(arch, mean="Constant" if arch["mean"] == "Linear" else arch["mean"]), v, D, data, maybe_scale(arch, D, k))


register("exact.arc", "exact", "exact.kernels", _simple_arch(), _build_arc, data=_unit_ball_data)
register("exact.cylindrical", "exact", "exact.kernels", _simple_arch(lambda p: {"weights": p.int(1, 4)}, d_choices=(2, 3)), _build_cylindrical,
         data=_unit_ball_data)
# (no batch shape: batched HammingIMQKernel is finding F15 of another property)
register("exact.hamming", "exact", "exact.kernels", _simple_arch(lambda p: {"vocab": p.int(2, 4), "seq": p.int(2, 4)}, batch=False), _build_hamming,
         data=_hamming_data)
register("exact.gaussian_symmetrized_kl", "exact", "exact.kernels", _simple_arch(d_choices=(1, 2)), _build_dist, data=_dist_data)


# ---- composite kernels ---------------------------------------------------------------------------------
LEAVES = ["RBF", "Matern", "RQ", "Periodic", "Linear", "Polynomial"]


def _leaf(kind, arch, v, D):
    d = arch["d"]
    bs = torch.Size(arch.get("batch", []))
    kw = {"batch_shape": bs}
    if d >= 2 and v.f(0, 1) < 2.0 and arch.get("ad"):
        kw["active_dims"] = v.dims(d, d - 1)
    if kind == "RBF":
        return K.RBFKernel(**kw, **D.kw("lengthscale"))
    if kind == "Matern":
        return K.MaternKernel(nu=1.5, **kw, **D.kw("lengthscale"))
    if kind == "RQ":
        return K.RQKernel(**kw, **D.kw("lengthscale"))
    if kind == "Periodic":
        return K.PeriodicKernel(**kw, **D.kw("lengthscale"), **D.kw("period_length"))
    if kind == "Linear":
        return K.LinearKernel(**kw, **D.kw("variance"))
    if kind == "Polynomial":
        return K.PolynomialKernel(power=2, **kw, **D.kw("offset"))
    raise KeyError(kind)


def _build_composite(op):
    def build(arch, v, data):
        D = Deco(arch["deco"], v)
        parts = [_leaf(kd, arch, v, D) for kd in arch["parts"]]
        parts = [K.ScaleKernel(k_, batch_shape=k_.batch_shape, **D.kw("outputscale")) if sc else k_ for k_, sc in zip(parts, arch["scaled"])]
        k = parts[0]
        for k2 in parts[1:]:
            k = k + k2 if op == "add" else k * k2
        if op == "mul":
            k = k + K.ScaleKernel(K.RBFKernel(batch_shape=parts[0].batch_shape))  # keeps products of low-rank kernels full rank
        return finish_exact(arch, v, D, data, k)

    return build


def _composite_arch(p):
    a = base_arch(p, batch=True)
    n = p.int(2, 3)
    a.update(parts=[p.choice(LEAVES) for _ in range(n)], scaled=[p.bool() for _ in range(n)], ad=p.bool())
    return a


def _build_structure(kind):
    def build(arch, v, data):
        D = Deco(arch["deco"], v)
        d = arch["d"]
        if kind == "newton_girard":
            base = K.RBFKernel(ard_num_dims=d, **D.kw("lengthscale"))
            k = K.NewtonGirardAdditiveKernel(base, num_dims=d, max_degree=arch["degree"])
        else:
            base = K.RBFKernel(**D.kw("lengthscale")) if arch["leaf"] == "RBF" else K.MaternKernel(nu=2.5, **D.kw("lengthscale"))
            k = (K.AdditiveStructureKernel if kind == "additive_structure" else K.ProductStructureKernel)(base, num_dims=d)
        return finish_exact(arch, v, D, data, maybe_scale(arch, D, k))

    return build


def _structure_arch(p):
    a = base_arch(p, d_choices=(2, 3))
    a.update(leaf=p.choice(["RBF", "Matern"]), degree=p.int(1, 2), scale=p.bool())
    return a


register("exact.additive", "exact", "exact.kernels", _composite_arch, _build_composite("add"))
register("exact.product", "exact", "exact.kernels", _composite_arch, _build_composite("mul"))
register("exact.additive_structure", "exact", "exact.kernels", _structure_arch, _build_structure("additive_structure"))
register("exact.product_structure", "exact", "exact.kernels", _structure_arch, _build_structure("product_structure"))
register("exact.newton_girard", "exact", "exact.kernels", _structure_arch, _build_structure("newton_girard"))


# ---- structure-exploiting kernels ----------------------------------------------------------------------
def _grid_data(arch, v):
    """training inputs = the full grid of the *original's* seed-independent grid (data), so that the Toeplitz/Kronecker path is taken"""
    d, g = arch["d"], arch["g"]
    grid = [torch.linspace(-1.0 - 0.1 * i, 1.0 + 0.2 * i, g, dtype=F64) for i in range(d)]
    from gpytorch.utils.grid import create_data_from_grid

    X = create_data_from_grid(grid)
    n, ns = X.shape[0], arch["ns"]
    return {"train_inputs": (X,), "y": v.t((n,), -1.5, 1.5), "test_inputs": (v.t((ns, d), -1.0, 1.0),), "test_noise": v.t((ns,), 0.05, 0.5),
            "fixed_noise": v.t((n,), 0.05, 0.5), "grid": grid}


def _build_grid(arch, v, data):
    D = Deco(arch["deco"], v)
    base = K.RBFKernel(**D.kw("lengthscale")) if arch["leaf"] == "RBF" else K.MaternKernel(nu=1.5, **D.kw("lengthscale"))
    if arch["own_grid"]:
        # the grid is a buffer: a seed-dependent grid that the state_dict must replace by the original's
        grid = [torch.linspace(-1.0 - v.f(0.0, 0.5), 1.0 + v.f(0.0, 0.5), arch["g"], dtype=F64) for _ in range(arch["d"])]
    else:
        grid = [g.clone() for g in data["grid"]]
    k = K.GridKernel(base, grid=grid)
    return finish_exact(arch, v, D, data, maybe_scale(arch, D, k))


def _grid_arch(p):
    a = base_arch(p, d_choices=(1, 2))
    a.update(g=p.int(3, 4), leaf=p.choice(["RBF", "Matern"]), own_grid=p.bool(), scale=p.bool())
    return a


def _build_kiss(dynamic):
    def build(arch, v, data):
        D = Deco(arch["deco"], v)
        d = arch["d"]
        base = K.RBFKernel(ard_num_dims=d if arch["ard"] else None, **D.kw("lengthscale")) if arch["leaf"] == "RBF" else \
            K.MaternKernel(nu=2.5, **D.kw("lengthscale"))
        if dynamic:
            k = K.GridInterpolationKernel(base, grid_size=arch["g"], num_dims=d)
        else:
            # the grid buffers are derived from the bounds: seed-dependent bounds, all of them containing the data
            k = K.GridInterpolationKernel(base, grid_size=arch["g"], grid_bounds=[(-3.0 - v.f(0.0, 1.0), 3.0 + v.f(0.0, 1.0)) for _ in range(d)])
        return finish_exact(arch, v, D, data, maybe_scale(arch, D, k))

    return build


def _kiss_arch(p):
    a = base_arch(p, d_choices=(1, 2))
    a.update(g=p.int(6, 10), leaf=p.choice(["RBF", "Matern"]), ard=p.bool(), scale=p.bool())
    return a


def _build_sgpr(arch, v, data):
    D = Deco(arch["deco"], v)
    d = arch["d"]
    lik = build_likelihood(dict(arch, lik="Gaussian"), v, D, data)
    kw, dk = stationary_kwargs(dict(arch, ad=False), v, D)
    base = K.RBFKernel(**kw) if arch["leaf"] == "RBF" else K.MaternKernel(nu=2.5, **kw)
    base = maybe_scale(arch, D, base)
    k = K.InducingPointKernel(base, inducing_points=v.distinct_points(arch["m"], d), likelihood=lik)
    mark_set(k.inducing_points)
    return finish_exact(arch, v, D, data, k, lik=lik)


def _sgpr_arch(p):
    a = base_arch(p)
    a.update(m=p.int(2, 4), leaf=p.choice(["RBF", "Matern"]), ard=p.bool(), scale=p.bool(), lik="Gaussian")
    return a


register("exact.grid", "exact", "exact.structured", _grid_arch, _build_grid, data=_grid_data, graph_caches=True)
register("exact.kiss_fixed_grid", "exact", "exact.structured", _kiss_arch, _build_kiss(False), graph_caches=True)
register("exact.kiss_dynamic_grid", "exact", "exact.structured", _kiss_arch, _build_kiss(True), graph_caches=True)
register("exact.sgpr", "exact", "exact.structured", _sgpr_arch, _build_sgpr)


# ---- likelihood variants on a plain kernel -------------------------------------------------------------
def _build_plain(arch, v, data):
    D = Deco(arch["deco"], v)
    kw, dk = stationary_kwargs(arch, v, D)
    return finish_exact(arch, v, D, data, maybe_scale(arch, D, K.RBFKernel(**kw) if arch["leaf"] == "RBF" else K.MaternKernel(nu=1.5, **kw)))


def _lik_arch(lik, batch=True):
    def arch(p):
        a = base_arch(p, batch=batch)
        a.update(lik=lik, leaf=p.choice(["RBF", "Matern"]), ard=p.bool(), ad=p.choice([False, False, True]), scale=p.bool())
        return a

    return arch


def _dirichlet_data(arch, v):
    dat = generic_data(arch, v)
    n, ns, c = arch["n"], arch["ns"], arch["classes"]
    labels = torch.tensor([i % c for i in v.perm(n)])  # every class occurs (n >= 4 >= classes)
    dat["labels"] = labels
    dat["lik_kwargs"] = {"noise": v.t((c, ns), 0.05, 0.5)}
    return dat


def _build_dirichlet(arch, v, data):
    D = Deco(arch["deco"], v)
    lik = L.DirichletClassificationLikelihood(data["labels"], alpha_epsilon=0.01 * arch["eps"], learn_additional_noise=arch["learn"], dtype=F64,
                                              **(D.kw("noise") if arch["learn"] else {}))
    a = dict(arch, batch=[lik.num_classes])
    kw, dk = stationary_kwargs(a, v, D)
    data = dict(data, y=lik.transformed_targets)
    return finish_exact(a, v, D, data, maybe_scale(a, D, K.RBFKernel(**kw)), lik=lik)


def _dirichlet_arch(p):
    a = base_arch(p)
    a.update(classes=p.int(2, 3), eps=p.int(1, 5), learn=p.bool(), ard=p.bool(), ad=False, scale=True, mean=p.choice(["Zero", "Constant"]))
    return a


register("exact.lik.gaussian", "exact", "exact.likelihoods", _lik_arch("Gaussian"), _build_plain)
register("exact.lik.fixed_noise", "exact", "exact.likelihoods", _lik_arch("FixedNoise"), _build_plain)
register("exact.lik.fixed_noise_learned", "exact", "exact.likelihoods", _lik_arch("FixedNoise+"), _build_plain)
register("exact.lik.gaussian_missing_obs", "exact", "exact.likelihoods", _lik_arch("GaussianMissing"), _build_plain)
register("exact.lik.dirichlet", "exact", "exact.likelihoods", _dirichlet_arch, _build_dirichlet, data=_dirichlet_data)


# ---- multitask exact models -----------------------------------------------------------------------------
def corr_matrix_closure(m):
    """correlation matrix of an IndexKernel's task covariance (module-level: closures must be picklable)"""
    c = m._eval_covar_matrix()
    s = c.diagonal(dim1=-1, dim2=-2).rsqrt()
    c = s.unsqueeze(-1) * c * s.unsqueeze(-2)
    eye = torch.eye(c.shape[-1], dtype=c.dtype)
    return c * (1 - eye) + eye  # exact unit diagonal


def corr_cholesky_closure(m):
    return torch.linalg.cholesky(corr_matrix_closure(m))


LKJ_KINDS = [None, None, "LKJCovariance", "LKJ", "LKJCholeskyFactor"]


def _task_prior(kind, t, v: Vals, used):
    if kind == "LKJCovariance":
        used.append("LKJCovariance")
        return P.LKJCovariancePrior(t, v.f(0.5, 3.0), P.GammaPrior(v.f(1.0, 3.0), v.f(0.5, 3.0)))
    return None


def _extra_task_priors(kind, index_kernel, t, v: Vals, used):
    if kind == "LKJ":
        index_kernel.register_prior("task_correlation_prior", P.LKJPrior(t, v.f(0.5, 3.0)), corr_matrix_closure)
        used.append("LKJ")
    elif kind == "LKJCholeskyFactor":
        index_kernel.register_prior("task_correlation_cholesky_prior", P.LKJCholeskyFactorPrior(t, v.f(0.5, 3.0)), corr_cholesky_closure)
        used.append("LKJCholeskyFactor")


def _mt_data(arch, v):
    d, n, ns, t = arch["d"], arch["n"], arch["ns"], arch["t"]
    return {"train_inputs": (v.t((n, d), -2.0, 2.0),), "y": v.t((n, t), -1.5, 1.5), "test_inputs": (v.t((ns, d), -2.5, 2.5),), "num_data": n}


def _mt_likelihood(arch, v, D, t):
    lr = arch["lik_rank"]
    kw = {}
    if lr > 0 and arch.get("lik_lkj"):
        kw["task_prior"] = P.LKJCovariancePrior(t, v.f(0.5, 3.0), P.GammaPrior(v.f(1.0, 3.0), v.f(0.5, 3.0)))
        D.used_priors.append("LKJCovariance")
    return L.MultitaskGaussianLikelihood(num_tasks=t, rank=lr, has_global_noise=arch["global_noise"], has_task_noise=True, **D.kw("noise"), **kw)


def _mt_arch(p, d_choices=(1, 2)):
    t = p.int(2, 3)
    return {"d": p.choice(d_choices), "n": p.int(3, 5), "ns": p.int(1, 2), "t": t, "rank": p.int(1, t), "lik_rank": p.int(0, t), "lik_lkj": p.bool(),
            # (rank < t task noise without global noise + Kronecker kernel is finding F19 of the dependency: keep the global term then)
            "global_noise": True, "lkj": p.choice(LKJ_KINDS), "mean": p.choice(["Zero", "Constant", "Linear"]), "deco": deco_slots(p),
            "leaf": p.choice(["RBF", "Matern"]), "ard": p.bool(), "ad": p.choice([False, False, True])}


def _build_mt_kronecker(arch, v, data):
    D = Deco(arch["deco"], v)
    t = arch["t"]
    kw, dk = stationary_kwargs(arch, v, D)
    base = K.RBFKernel(**kw) if arch["leaf"] == "RBF" else K.MaternKernel(nu=2.5, **kw)
    k = K.MultitaskKernel(base, num_tasks=t, rank=arch["rank"], task_covar_prior=_task_prior(arch["lkj"], t, v, D.used_priors))
    _extra_task_priors(arch["lkj"], k.task_covar_module, t, v, D.used_priors)
    mean = M.MultitaskMean([build_mean(arch, v, D) for _ in range(t)], num_tasks=t)
    return finish_exact(arch, v, D, data, k, cls=MultitaskGPModel, lik=_mt_likelihood(arch, v, D, t), mean=mean)


def _build_mt_lcm(arch, v, data):
    D = Deco(arch["deco"], v)
    t = arch["t"]
    bases = [K.RBFKernel(**D.kw("lengthscale")), K.MaternKernel(nu=1.5, **D.kw("lengthscale"))][: arch["nk"]]
    k = K.LCMKernel(bases, num_tasks=t, rank=arch["rank"], task_covar_prior=_task_prior(arch["lkj"], t, v, D.used_priors))
    mean = M.MultitaskMean(build_mean(dict(arch, mean="Constant"), v, D), num_tasks=t)
    return finish_exact(arch, v, D, data, k, cls=MultitaskGPModel, lik=_mt_likelihood(arch, v, D, t), mean=mean)


def _hadamard_data(arch, v):
    d, n, ns, t = arch["d"], arch["n"], arch["ns"], arch["t"]
    ti = torch.tensor([i % t for i in v.perm(n)]).unsqueeze(-1)
    tsi = torch.tensor([i % t for i in v.perm(ns)]).unsqueeze(-1)
    return {"train_inputs": (v.t((n, d), -2.0, 2.0), ti), "y": v.t((n,), -1.5, 1.5), "test_inputs": (v.t((ns, d), -2.5, 2.5), tsi),
            "test_noise": v.t((ns,), 0.05, 0.5), "fixed_noise": v.t((n,), 0.05, 0.5)}


def _build_hadamard(arch, v, data):
    D = Deco(arch["deco"], v)
    t = arch["t"]
    kw, dk = stationary_kwargs(arch, v, D)
    base = maybe_scale(arch, D, K.RBFKernel(**kw))
    tk = K.IndexKernel(num_tasks=t, rank=arch["rank"], prior=_task_prior(arch["lkj"], t, v, D.used_priors), **D.kw("var", prior=False))
    _extra_task_priors(arch["lkj"], tk, t, v, D.used_priors)
    lik = build_likelihood(arch, v, D, data)
    model = HadamardGPModel(data["train_inputs"], data["y"], lik, build_mean(dict(arch, mean="Constant" if arch["mean"] == "Linear" else arch["mean"]), v, D), base, tk)
    randomize(model, v)
    model._c18 = {"priors": sorted(set(D.used_priors)), "constraints": sorted(set(D.used_constraints))}
    return model


def _hadamard_arch(p):
    a = _mt_arch(p)
    a.update(lik=p.choice(["Gaussian", "Gaussian", "FixedNoise", "FixedNoise+"]), scale=p.bool(), n=p.int(4, 6))
    return a


def _build_mt_batch_independent(arch, v, data):
    D = Deco(arch["deco"], v)
    t = arch["t"]
    a = dict(arch, batch=[t], ad=False)
    kw, dk = stationary_kwargs(a, v, D)
    k = maybe_scale(dict(a, scale=True), D, K.RBFKernel(**kw))
    return finish_exact(a, v, D, data, k, cls=BatchIndependentMultitaskGPModel, lik=_mt_likelihood(arch, v, D, t), mean=build_mean(dict(a, mean="Constant"), v, D))


def _grad_tasks(kind, d):
    return 2 * d + 1 if kind == "rbf_gradgrad" else d + 1


def _grad_data(kind):
    def data(arch, v):
        a = dict(arch, t=_grad_tasks(kind, arch["d"]))
        return _mt_data(a, v)

    return data


def _build_grad(kind):
    def build(arch, v, data):
        D = Deco(arch["deco"], v)
        d = arch["d"]
        t = _grad_tasks(kind, d)
        if kind == "rbf_grad":
            k = K.RBFKernelGrad(ard_num_dims=d if arch["ard"] else None, **D.kw("lengthscale"))
        elif kind == "rbf_gradgrad":
            k = K.RBFKernelGradGrad(ard_num_dims=d if arch["ard"] else None, **D.kw("lengthscale"))
        elif kind == "matern52_grad":
            k = K.Matern52KernelGrad(ard_num_dims=d if arch["ard"] else None, **D.kw("lengthscale"))
        else:
            k = K.PolynomialKernelGrad(power=2, **D.kw("offset"))
        mean = M.ConstantMeanGradGrad() if kind == "rbf_gradgrad" else M.ConstantMeanGrad()
        a = dict(arch, lik_rank=0, global_noise=True)
        return finish_exact(a, v, D, data, maybe_scale(dict(arch, scale=True), D, k), cls=MultitaskGPModel, lik=_mt_likelihood(a, v, D, t), mean=mean)

    return build


register("mt.kronecker", "exact", "exact.multitask", _mt_arch, _build_mt_kronecker, data=_mt_data, random_buffer=True)
register("mt.lcm", "exact", "exact.multitask", lambda p: dict(_mt_arch(p), nk=p.int(1, 2)), _build_mt_lcm, data=_mt_data, random_buffer=True)
register("mt.hadamard_index_kernel", "exact", "exact.multitask", _hadamard_arch, _build_hadamard, data=_hadamard_data, random_buffer=True)
register("mt.batch_independent", "exact", "exact.multitask", _mt_arch, _build_mt_batch_independent, data=_mt_data)
for _kind in ("rbf_grad", "rbf_gradgrad", "matern52_grad", "polynomial_grad"):
    register(f"mt.{_kind}", "exact", "exact.multitask", _mt_arch, _build_grad(_kind), data=_grad_data(_kind))


# ---- variational models: every strategy x variational distribution ---------------------------------------
DISTS = {"Cholesky": V.CholeskyVariationalDistribution, "MeanField": V.MeanFieldVariationalDistribution, "Delta": V.DeltaVariationalDistribution,
         "Natural": V.NaturalVariationalDistribution, "TrilNatural": V.TrilNaturalVariationalDistribution}
STRATEGIES = ["Variational", "Unwhitened", "BatchDecoupled", "Ciq", "Grid", "AdditiveGrid", "OrthogonallyDecoupled", "LMC", "IndependentMultitask",
              "NearestNeighbor"]
SVGP_LIKS = ["Gaussian", "Gaussian", "Bernoulli", "Beta", "Laplace", "StudentT"]


def _svgp_likelihood(kind, v, D, t=None):
    if kind == "Gaussian":
        return L.GaussianLikelihood(**D.kw("noise"))
    if kind == "Bernoulli":
        return L.BernoulliLikelihood()
    if kind == "Beta":
        return L.BetaLikelihood(**D.kw("scale"))
    if kind == "Laplace":
        return L.LaplaceLikelihood(**D.kw("noise"))
    if kind == "StudentT":
        return L.StudentTLikelihood(**D.kw("deg_free", constraint=False), **D.kw("noise"))
    if kind == "MultitaskGaussian":
        return L.MultitaskGaussianLikelihood(num_tasks=t, rank=0, **D.kw("noise"))
    if kind == "Softmax":
        return L.SoftmaxLikelihood(num_features=t, num_classes=t + 1, mixing_weights=True)
    raise KeyError(kind)


def _svgp_targets(kind, f, v, classes=None):
    """targets in the support of the likelihood, shaped like f"""
    u = v.t(f.shape, 0.0, 1.0)
    if kind == "Bernoulli":
        return (u > 0.5).to(F64)
    if kind == "Beta":
        return 0.05 + 0.9 * u
    if kind == "Softmax":
        return (u[..., 0] * classes).long().clamp_max(classes - 1)
    return 3.0 * u - 1.5


def _svgp_data(arch, v):
    d, n, ns = arch["d"], arch["n"], arch["ns"]
    if arch["strategy"] == "NearestNeighbor":
        n = arch["m"]  # VNNGP: "the full inducing points set = full training dataset" - constructor data handed to both models
    X = v.distinct_points(n, d) if arch["strategy"] == "NearestNeighbor" else v.t((n, d), -2.0, 2.0)
    Xs = v.t((ns, d), -2.0, 2.0)
    t = arch.get("t")
    lik = arch["lik"]
    if lik == "Softmax":
        y = _svgp_targets(lik, torch.zeros(n, 1), v, classes=t + 1)
    else:
        y = _svgp_targets(lik, torch.zeros(n, t) if t else torch.zeros(n), v)
    return {"train_inputs": (X,), "y": y, "test_inputs": (Xs,), "num_data": n}


def _set_q(vd, v: Vals, m, bs=()):
    """seed-dependent q(u) = N(mean, S) written through the distribution's own initialiser (mean_init_std noise is seeded by build_model)"""
    bs = tuple(bs)
    mean = v.n(bs + (m,), 0.7)
    a = v.n(bs + (m, m), 0.3)
    S = a @ a.transpose(-1, -2) + torch.diag_embed(v.t(bs + (m,), 0.3, 1.2))
    vd.initialize_variational_distribution(MultivariateNormal(mean, S))
    mark_set(*vd.parameters())


def _make_strategy_factory(arch, v: Vals, holder):
    """returns make(model) -> strategy; the pieces that own q(u) are collected in holder['bases'] for initialisation"""
    d, m = arch["d"], arch["m"]
    name, dist = arch["strategy"], arch["dist"]
    learn = arch.get("learn_z", True)
    jit = arch.get("jitter")

    def make(model):
        bases = []
        if name in ("Variational", "Unwhitened", "Ciq"):
            cls = {"Variational": V.VariationalStrategy, "Unwhitened": V.UnwhitenedVariationalStrategy, "Ciq": V.CiqVariationalStrategy}[name]
            vd = DISTS[dist](m)
            vs = cls(model, v.distinct_points(m, d), vd, learn_inducing_locations=learn, jitter_val=jit)
            bases.append((vs, vd, m, ()))
        elif name == "BatchDecoupled":
            vd = DISTS[dist](m, batch_shape=torch.Size([2]) if arch.get("mvbd") is not None else torch.Size([]))
            vs = V.BatchDecoupledVariationalStrategy(model, v.distinct_points(m, d), vd, learn_inducing_locations=learn, mean_var_batch_dim=arch.get("mvbd"),
                                                     jitter_val=jit)
            bases.append((vs, vd, m, (2,) if arch.get("mvbd") is not None else ()))
        elif name == "Grid":
            g = arch["g"]
            vd = DISTS[dist](g**d)
            vs = V.GridInterpolationVariationalStrategy(model, g, [(-3.0 - v.f(0.0, 1.0), 3.0 + v.f(0.0, 1.0)) for _ in range(d)], vd)
            bases.append((vs, vd, g**d, ()))
        elif name == "AdditiveGrid":
            g = arch["g"]
            vd = DISTS[dist](g, batch_shape=torch.Size([d]))
            vs = V.AdditiveGridInterpolationVariationalStrategy(model, g, [(-3.0 - v.f(0.0, 1.0), 3.0 + v.f(0.0, 1.0))], d, vd, mixing_params=arch["mixing"])
            bases.append((vs, vd, g, (d,)))
        elif name == "OrthogonallyDecoupled":
            vd = DISTS[dist](m)
            inner = V.VariationalStrategy(model, v.distinct_points(m, d), vd, learn_inducing_locations=learn, jitter_val=jit)
            mb = arch["mb"]
            vd2 = V.DeltaVariationalDistribution(mb)
            vs = V.OrthogonallyDecoupledVariationalStrategy(inner, v.distinct_points(mb, d, -2.5, 2.5), vd2, jitter_val=jit)
            bases.append((inner, vd, m, ()))
            bases.append((vs, vd2, mb, ()))
        elif name in ("LMC", "IndependentMultitask"):
            nl = arch["latents"] if name == "LMC" else arch["t"]
            vd = DISTS[dist](m, batch_shape=torch.Size([nl]))
            Z = torch.stack([v.distinct_points(m, d) for _ in range(nl)]) if arch["batch_z"] else v.distinct_points(m, d)
            inner = V.VariationalStrategy(model, Z, vd, learn_inducing_locations=learn, jitter_val=jit)
            if name == "LMC":
                vs = V.LMCVariationalStrategy(inner, num_tasks=arch["t"], num_latents=nl, latent_dim=-1)
            else:
                vs = V.IndependentMultitaskVariationalStrategy(inner, num_tasks=arch["t"])
            bases.append((inner, vd, m, (nl,)))
        elif name == "NearestNeighbor":
            vd = DISTS[dist](m)
            vs = V.NNVariationalStrategy(model, holder["X"], vd, k=arch["k"], training_batch_size=m)
            bases.append((vs, vd, m, ()))
        else:
            raise KeyError(name)
        holder["bases"] = bases
        return vs

    return make


def _build_svgp(arch, v, data):
    D = Deco(arch["deco"], v)
    name = arch["strategy"]
    t = arch.get("t")
    nl = (arch["latents"] if name == "LMC" else t) if name in ("LMC", "IndependentMultitask") else None
    bs = [nl] if nl else []
    a = dict(arch, batch=bs, ad=False)
    lik = _svgp_likelihood(arch["lik"], v, D, t)
    holder = {"X": data["train_inputs"][0]}
    make = _make_strategy_factory(arch, v, holder)
    mean = build_mean(a, v, D, d=1 if name == "AdditiveGrid" else None)
    kw, dk = stationary_kwargs(dict(a, ard=a.get("ard") and name != "AdditiveGrid"), v, D)
    base = K.RBFKernel(**kw) if arch["leaf"] == "RBF" else K.MaternKernel(nu=2.5, **kw)
    covar = maybe_scale(dict(a, scale=True), D, base)
    cls = NNSVGPModel if name == "NearestNeighbor" else SVGPModel
    model = cls(make, mean, covar, lik)
    # (the library's lazy initialisation of a *batched* TrilNatural distribution under autograd raises a view/in-place RuntimeError in
    # training mode - not a persistence matter: those are always initialised explicitly)
    if arch["q_init"] == "explicit" or (arch["dist"] == "TrilNatural" and name in ("AdditiveGrid", "LMC", "IndependentMultitask", "BatchDecoupled")):
        for vs, vd, m, qb in holder["bases"]:
            _set_q(vd, v, m, qb)
            vs.variational_params_initialized.fill_(1)
    else:
        for vs, vd, m, qb in holder["bases"]:
            mark_set(*vd.parameters())  # left to the library's lazy initialisation at the first call
    for vs, vd, m, qb in holder["bases"]:
        if isinstance(getattr(vs, "inducing_points", None), torch.nn.Parameter):
            mark_set(vs.inducing_points)
    randomize(model, v)
    model._c18 = {"priors": sorted(set(D.used_priors)), "constraints": sorted(set(D.used_constraints))}
    return model


def _svgp_arch(strategy, dist):
    def arch(p):
        a = {"strategy": strategy, "dist": dist, "d": p.choice([1, 2]), "n": p.int(4, 7), "ns": p.int(1, 3), "m": p.int(2, 4),
             "mean": p.choice(["Zero", "Constant", "Linear"]), "leaf": p.choice(["RBF", "Matern"]), "ard": p.bool(), "deco": deco_slots(p, rich=False),
             "lik": p.choice(SVGP_LIKS), "learn_z": p.choice([True, True, False]), "jitter": p.choice([None, 1e-4, 1e-3]),
             "q_init": p.choice(["explicit", "explicit", "lazy"])}
        if strategy == "BatchDecoupled":
            a["mvbd"] = p.choice([None, -1])
        if strategy in ("Grid", "AdditiveGrid"):
            a["g"] = p.int(4, 6)
            a["mixing"] = p.bool()
        if strategy == "OrthogonallyDecoupled":
            a["mb"] = p.int(2, 4)
        if strategy in ("LMC", "IndependentMultitask"):
            a.update(t=p.int(2, 3), latents=p.int(1, 3), batch_z=p.bool(), lik=p.choice(["MultitaskGaussian", "MultitaskGaussian", "Softmax"]), mean="Constant")
        if strategy == "NearestNeighbor":
            a.update(k=2, m=p.int(3, 5), lik="Gaussian")
        return a

    return arch


# combinations the library refuses (documented RuntimeError / NotImplementedError / assertion at construction or first call)
NOT_CONSTRUCTIBLE = {("Grid", "Delta"), ("AdditiveGrid", "Delta"), ("AdditiveGrid", "MeanField"), ("BatchDecoupled", "Delta")} | {
    ("NearestNeighbor", d_) for d_ in DISTS if d_ != "MeanField"}
for _s in STRATEGIES:
    for _d in DISTS:
        if (_s, _d) in NOT_CONSTRUCTIBLE:
            continue
        register(f"svgp.{_s}.{_d}", "svgp", "svgp.multitask" if _s in ("LMC", "IndependentMultitask") else "svgp.strategies", _svgp_arch(_s, _d), _build_svgp,
                 data=_svgp_data, random_buffer=True)


# ---- IndependentModelList ---------------------------------------------------------------------------------
SUB_KINDS = ["rbf", "matern", "periodic", "linear"]


def _list_data(arch, v):
    subs = []
    for a in arch["subs"]:
        subs.append(generic_data(a, v))
    return {"subs": subs, "test_inputs": tuple(s_["test_inputs"][0] for s_ in subs), "y": subs[0]["y"], "num_data": 0,
            "lik_kwargs": {"noise": [s_["test_noise"] for s_ in subs]} if all(a["lik"].startswith("FixedNoise") for a in arch["subs"]) else {}}


def _build_list(arch, v, data):
    models, priors, cons = [], [], []
    for a, dat in zip(arch["subs"], data["subs"]):
        name = {"rbf": "exact.rbf", "matern": "exact.matern", "fixed_noise": "exact.lik.fixed_noise_learned", "periodic": "exact.periodic",
                "linear": "exact.linear"}[a["kind"]]
        m = REGISTRY[name].build(a, v, dat)
        priors += m._c18["priors"]
        cons += m._c18["constraints"]
        models.append(m)
    model = gpytorch.models.IndependentModelList(*models)
    model._c18 = {"priors": sorted(set(priors)), "constraints": sorted(set(cons))}
    return model


def _list_arch(p):
    subs = []
    fixed = p.choice([False, False, True])  # call-time noise is a list with one entry per member: all members fixed-noise, or none
    for _ in range(p.int(2, 3)):
        kind = "fixed_noise" if fixed else p.choice(SUB_KINDS)
        a = REGISTRY["exact.rbf"].arch(p)
        a.update(kind=kind, nu=1.5, batch=[], deco=deco_slots(p, rich=False), lik="Gaussian")
        if kind == "fixed_noise":
            a.update(lik="FixedNoise+", leaf="RBF")
        subs.append(a)
    return {"subs": subs}


register("list.independent", "list", "model_list", _list_arch, _build_list, data=_list_data)


# ---------------------------------------------------------------------------------------------------
# observation of a model (identical procedure for the original and every restored model)
# ---------------------------------------------------------------------------------------------------
def objective_for(model, entry: Entry, data):
    if entry.family == "exact":
        return gpytorch.mlls.ExactMarginalLogLikelihood(model.likelihood, model)
    if entry.family == "list":
        return gpytorch.mlls.SumMarginalLogLikelihood(model.likelihood, model)
    return gpytorch.mlls.VariationalELBO(model.likelihood, model, num_data=int(data["num_data"]))


def _dist_tensors(tag, dist, out):
    if isinstance(dist, (list, tuple)):
        for i, d_ in enumerate(dist):
            _dist_tensors(f"{tag}[{i}]", d_, out)
        return
    if isinstance(dist, MultivariateNormal):
        out[f"{tag}.mean"] = dist.mean.detach().clone()
        out[f"{tag}.cov"] = dist.covariance_matrix.detach().clone()
    elif hasattr(dist, "probs"):
        out[f"{tag}.probs"] = dist.probs.detach().clone()
    else:
        out[f"{tag}.mean"] = dist.mean.detach().clone()
        out[f"{tag}.var"] = dist.variance.detach().clone()


def call_likelihood(model, entry, data, post):
    lik = model.likelihood
    if entry.family == "list":
        return lik(*post, **data.get("lik_kwargs", {}))
    if "lik_kwargs" in data:
        return lik(post, **data["lik_kwargs"])
    if isinstance(lik, L.FixedNoiseGaussianLikelihood):
        return lik(post, noise=data["test_noise"])
    return lik(post)


def eval_predict(model, entry, data, tag, out, grad=False, through_likelihood=True):
    torch.manual_seed(4242)
    model.eval()
    xs = data["test_inputs"]
    if grad:
        post = model(*xs)
    else:
        with torch.no_grad():
            post = model(*xs)
    _dist_tensors(f"{tag}.post", post, out)
    if through_likelihood:
        torch.manual_seed(4243)
        with torch.no_grad():
            pred = call_likelihood(model, entry, data, post)
        _dist_tensors(f"{tag}.pred", pred, out)
    return post


def train_forward(model, entry, data):
    if entry.family == "svgp":
        return model(*data["train_inputs"])
    if entry.family == "list":
        return model(*model.train_inputs)
    return model(*model.train_inputs)


def train_targets(model, entry, data):
    if entry.family == "svgp":
        return data["y"]
    return model.train_targets


def observe(model, entry: Entry, data):
    out = {}
    eval_predict(model, entry, data, "eval0", out)  # caches exactly as the mechanism delivered them
    model.train()
    torch.manual_seed(4244)
    model.zero_grad()
    prior = train_forward(model, entry, data)
    _dist_tensors("train", prior, out)
    mll = objective_for(model, entry, data)
    obj = mll(prior, train_targets(model, entry, data))
    out["objective"] = obj.detach().clone()
    # the prior terms of the objective, by prior class (so that a prior whose parameters did not travel is named by the failing assertion)
    terms = {}
    with torch.no_grad():
        for _, module, prior, closure, _ in model.named_priors():
            k = type(prior).__name__
            terms[k] = terms.get(k, 0.0) + prior.log_prob(closure(module)).sum()
    for k, t in terms.items():
        out[f"prior_term.{k}"] = t.detach().clone()
    obj.sum().backward()
    for name, p in model.named_parameters():
        out[f"grad.{name}"] = torch.zeros_like(p) if p.grad is None else p.grad.detach().clone()
    model.zero_grad()
    eval_predict(model, entry, data, "eval1", out)
    return out


# ---------------------------------------------------------------------------------------------------
# history before the save point
# ---------------------------------------------------------------------------------------------------
def run_history(model, entry, data, ops):
    for op in ops:
        name = op["op"]
        if name == "step":
            model.train()
            mll = objective_for(model, entry, data)
            params = [p for p in model.parameters() if p.requires_grad]
            opt = torch.optim.Adam(params, lr=op["lr"]) if op["opt"] == "adam" else torch.optim.SGD(params, lr=op["lr"])
            for _ in range(op["n"]):
                opt.zero_grad()
                torch.manual_seed(op.get("seed", 5))
                loss = -mll(train_forward(model, entry, data), train_targets(model, entry, data))
                loss.sum().backward()
                torch.nn.utils.clip_grad_norm_(params, 1.0)  # keeps the walk inside the well-conditioned region
                opt.step()
            opt.zero_grad()
        elif name == "predict":
            eval_predict(model, entry, data, "h", {}, grad=op.get("grad", False), through_likelihood=op.get("lik", False))
        elif name == "train":
            model.train()
        elif name == "eval":
            model.eval()
        else:
            raise AssertionError(f"unknown op {name}")


def history_ops(p, kind):
    def steps():
        return {"op": "step", "opt": p.choice(["sgd", "adam"]), "lr": p.choice([0.01, 0.05, 0.1]), "n": p.int(1, 2)}

    def pred():
        return {"op": "predict", "grad": p.choice([False, False, True]), "lik": p.bool()}

    if kind == "none":
        return []
    if kind == "train":
        return [steps()] + ([{"op": "eval"}] if p.bool() else [])
    if kind == "eval":
        return [pred() for _ in range(p.int(1, 2))] + ([{"op": "train"}] if p.choice([False, False, True]) else [])
    ops = []
    for _ in range(p.int(2, 4)):
        ops.append(steps() if p.bool() else pred())
    if not any(o["op"] == "step" for o in ops):
        ops.insert(p.int(0, len(ops)), steps())
    if not any(o["op"] == "predict" for o in ops):
        ops.append(pred())
    return ops


# ---------------------------------------------------------------------------------------------------
# the check
# ---------------------------------------------------------------------------------------------------
NUMERIC = (NotPSDError, NanError)
CACHE_TOL = 1e-8  # first prediction after the save point when one side uses caches of the history and the other rebuilds them


NAMED_PRIOR_TARGETS = ("lengthscale", "outputscale", "noise", "variance", "period_length", "offset")


def build_model(entry: Entry, arch, seed, data):
    torch.manual_seed(seed)  # library-side random initialisation (RFF weights, spectral deltas, ...) follows the seed too
    model = entry.build(arch, Vals(seed), data)
    if arch.get("named_prior"):
        # the documented short form `register_prior(name, prior, "<parameter name>")` on the first module that has such a parameter:
        # its closures are made by the library, and they have to survive every persistence mechanism like everything else
        for mod in model.modules():
            hit = next((t for t in NAMED_PRIOR_TARGETS if isinstance(mod, gpytorch.Module) and ("raw_" + t) in mod._parameters), None)
            if hit is not None:
                mod.register_prior("c18_named_prior", P.NormalPrior(0.75, 1.5), hit)
                getattr(model, "_c18", {"priors": []})["priors"].append("NamedNormal")
                break
    return model


def make_data(entry: Entry, arch, seed):
    v = Vals(seed)
    data = (entry.data or generic_data)(arch, v)
    data.setdefault("num_data", data["y"].shape[-1] if entry.family != "list" else 0)
    return data


def compare(ctx: Ctx, mech, got, want, tol, cache_tol=None):
    for k in want:
        if k not in got:
            ctx.check(f"{mech}.{k.split('.')[0]}", False, f"restored model produced no {k}")
    prior_mismatch = False
    for k, w in want.items():
        if k.startswith("prior_term.") and k in got:
            # class = the prior class: one root cause per prior class, whatever the model around it
            if not ctx.close(f"{mech}.prior_term", got[k], w, rtol=tol, atol=tol, cls=k.split(".", 1)[1]):
                prior_mismatch = True
    for k, w in want.items():
        if k not in got or k.startswith("prior_term."):
            continue
        # group the gradient assertions under one name; everything else under its own
        name = f"{mech}.grad" if k.startswith("grad.") else f"{mech}.{k}"
        t = cache_tol if (cache_tol is not None and k.startswith("eval0.")) else tol
        # the objective and its gradient contain the prior terms: after a prior-term mismatch their failures are consequences of it
        cls = "consequence of a prior_term mismatch" if prior_mismatch and (k == "objective" or k.startswith("grad.")) else None
        ctx.close(name, got[k], w, rtol=t, atol=t, cls=cls)


def flags_of(model):
    # (gpytorch modules only: the default constraint transform is one module-level torch.nn.Softplus shared by every model of the process)
    return {n: m.training for n, m in model.named_modules() if isinstance(m, (gpytorch.Module, P.Prior))}


def run_case(case, ctx: Ctx):
    entry = REGISTRY[case["entry"]]
    arch = case["arch"]
    seeds = case["seeds"]
    ops = list(case["history"])
    data = make_data(entry, arch, seeds["data"])
    with ctx.observing("build"):
        src = build_model(entry, arch, seeds["src"], data)
    info = getattr(src, "_c18", {"priors": [], "constraints": []})
    ctx.cls = entry.name
    if entry.needs_forward and not any(o["op"] == "predict" for o in ops):
        ops = [{"op": "predict"}] + ops
    kinds = {o["op"] for o in ops}
    hist = "none" if not ops else ("both" if {"step", "predict"} <= kinds else ("train" if "step" in kinds else ("eval" if "predict" in kinds else "mode")))
    ctx.label(f"entry={entry.name}", f"history={hist}", f"group={entry.group}", *(f"prior={k}" for k in info["priors"]),
              *(f"constraint={k}" for k in info["constraints"]), f"dst_warm={int(case['dst_warm'])}")
    ctx.set_nontrivial(bool(ops) or bool(info["priors"]) or bool(info["constraints"]) or entry.random_buffer)

    try:
        with ctx.observing("history"):
            run_history(src, entry, data, ops)
    except LibraryFailure as e:
        if isinstance(e.__cause__, NUMERIC):
            ctx.violations.pop()
            raise Discard("history left the well-conditioned region") from None
        raise

    # ---- the save point ------------------------------------------------------------------------------
    saved = {}
    with ctx.observing("state_dict.save"):
        buf = io.BytesIO()
        torch.save(src.state_dict(), buf)
        saved["state_dict"] = buf.getvalue()
    try:
        with ctx.observing("pickle.save"):
            saved["pickle"] = pickle.dumps(src)
    except LibraryFailure:  # recorded as a violation by ctx.observing; the other mechanisms are still judged
        pass
    graph_history = any(o["op"] == "predict" and o.get("grad") for o in ops)
    try:
        with ctx.observing("deepcopy.copy"):
            try:
                saved["deepcopy"] = copy.deepcopy(src)
            except RuntimeError as e:
                # torch: "Only Tensors created explicitly by the user (graph leaves) support the deepcopy protocol".  Exact prediction
                # strategies are dropped by the library on deepcopy precisely to avoid this, so there (and for the memoize caches of
                # variational strategies, which every training step fills) it stays a violation.
                if not (entry.graph_caches and graph_history and "deepcopy protocol" in str(e)):
                    raise
                ctx.label("deepcopy_refused_graph_caches")
    except LibraryFailure:
        pass
    src_flags = flags_of(src)

    try:
        with ctx.observing("observe.original"):
            want = observe(src, entry, data)
    except LibraryFailure as e:
        if isinstance(e.__cause__, NUMERIC):
            ctx.violations.pop()
            raise Discard("original is ill-conditioned at the save point") from None
        raise
    if not all(bool(torch.isfinite(t).all()) for t in want.values()):
        raise Discard("original produces non-finite outputs at the save point")

    # ---- the copies are independent objects: what happens to the original after the save point (further optimiser steps, a later
    # load_state_dict - both write parameters and buffers IN PLACE) must not show in a snapshot taken before.  The original is not used
    # after this point; every floating-point parameter and buffer of it is overwritten in place.
    with torch.no_grad():
        for t_ in list(src.parameters()) + list(src.buffers()):
            if t_.is_floating_point() and t_.numel():
                t_.mul_(0.5).add_(0.25)
    # (a model may legitimately hold the user's data tensors as parameters - torch.nn.Parameter(x) shares x's storage, e.g. inducing
    # points = training inputs: the data handed to the copies below is generated afresh)
    data = make_data(entry, arch, seeds["data"])

    # ---- (b) pickle, (c) deepcopy ----------------------------------------------------------------------
    for mech in ("pickle", "deepcopy"):
        if mech not in saved:
            continue
        try:
            with ctx.observing(f"{mech}.restore"):
                m2 = pickle.loads(saved[mech]) if mech == "pickle" else saved[mech]
                f2 = flags_of(m2)
            ctx.check(f"{mech}.training_flags", f2 == src_flags, f"training flags differ: {[k for k in src_flags if f2.get(k) != src_flags[k]][:5]}")
            with ctx.observing(f"{mech}.observe"):
                got = observe(m2, entry, data)
            # the copy rebuilds its eval-mode caches (deepcopy drops prediction strategies) while the original keeps those of its history,
            # which may have been computed under autograd, i.e. through other kernel code paths (rounding differences, amplified by the
            # solve): the first prediction is compared with C03's history-independence tolerance 1e-8 (a stale cache shows as >= 1e-3),
            # everything after it bitwise.  Pickle carries the caches, so there the first prediction is bitwise as well.
            compare(ctx, mech, got, want, entry.exact_tol, cache_tol=CACHE_TOL if mech == "deepcopy" else None)
        except LibraryFailure:
            pass

    # ---- (a) state_dict into the same recipe with another seed ---------------------------------------
    with ctx.observing("state_dict.build_destination"):
        dst = build_model(entry, arch, seeds["dst"], data)
    if case["dst_warm"] or entry.warm_only:
        try:
            with ctx.observing("state_dict.warm_destination"):
                observe(dst, entry, data)
        except LibraryFailure as e:
            if isinstance(e.__cause__, NUMERIC):
                ctx.violations.pop()
                raise Discard("destination is ill-conditioned with its own values") from None
            raise
    with ctx.observing("state_dict.load"):
        sd = torch.load(io.BytesIO(saved["state_dict"]))
        legacy = {f"{n}.raw_constant" for n, m_ in dst.named_modules() if type(m_) is M.ConstantMean} & set(sd)
        if case.get("legacy_constant_key") and legacy:
            # a state dict as written before ConstantMean.constant (*batch x 1) was renamed to raw_constant (*batch): the library registers a
            # load_state_dict pre-hook that converts it, so strict loading must succeed and give the same model
            sd = type(sd)((k[: -len("raw_constant")] + "constant", t.unsqueeze(-1)) if k in legacy else (k, t) for k, t in sd.items())
            ctx.label("legacy_constant_key")
        res = dst.load_state_dict(sd, strict=True)
        if res is not None:
            ctx.check("state_dict.keys", not res.missing_keys and not res.unexpected_keys, f"missing={res.missing_keys} unexpected={res.unexpected_keys}")
    with ctx.observing("state_dict.observe"):
        got = observe(dst, entry, data)
    # both sides run the same float64 code on the same numbers: 1e-12 leaves room only for re-association inside caches
    compare(ctx, "state_dict", got, want, 1e-12, cache_tol=CACHE_TOL)


# ---------------------------------------------------------------------------------------------------
# case generators
# ---------------------------------------------------------------------------------------------------
HISTORY_KINDS = ["none", "train", "eval", "both"]


def make_case(p, name, hist_kind=None):
    entry = REGISTRY[name]
    arch = entry.arch(p)
    kind = hist_kind or p.choice(HISTORY_KINDS)
    if entry.family != "list":
        arch["named_prior"] = p.choice([False, False, True])
    return {"entry": name, "arch": arch, "seeds": {"data": p.int(0, 10**6), "src": p.int(0, 10**6), "dst": p.int(10**6 + 1, 2 * 10**6)},
            "history": history_ops(p, kind), "dst_warm": p.choice([True, True, False]), "legacy_constant_key": p.choice([False, False, True])}


def group_strategy(group):
    names = sorted(n for n, e in REGISTRY.items() if e.group == group)

    @st.composite
    def strat(draw):
        p = HypPick(draw)
        return make_case(p, p.choice(names))

    return strat


def enumerate_sweep(tier):
    reps = 3 if tier == "quick" else 12
    for name in sorted(REGISTRY):
        for kind in HISTORY_KINDS:
            for rep in range(reps):
                yield make_case(SeedPick(zlib.crc32(f"{name}|{kind}|{rep}".encode())), name, kind)


RULE = ("case = (registry entry, architecture, three seeds, history, dst_warm). Registry: exact GPs over every constructible kernel class "
        "(RBF, Matern, RQ, Periodic, PiecewisePolynomial, Linear, Polynomial, Cosine, Constant, SpectralMixture, SpectralDelta, RFF with eager and "
        "lazily created weights, Arc, Cylindrical, HammingIMQ, GaussianSymmetrizedKL, Additive/Product, Additive/ProductStructure, NewtonGirard, "
        "GridKernel, GridInterpolationKernel with fixed and data-derived grid, InducingPointKernel), likelihoods (Gaussian, fixed noise +- learned "
        "noise, missing-obs, Dirichlet classification, multitask with rank 0..t), Kronecker multitask / LCM / Hadamard IndexKernel / batch-"
        "independent / derivative (RBFGrad, RBFGradGrad, Matern52Grad, PolynomialGrad) models, SVGP over every constructible strategy x "
        "variational distribution (7 single-output strategies, LMC, IndependentMultitask, NearestNeighbor) with 6 likelihoods, "
        "IndependentModelList; every decorated parameter draws a prior class (Normal, LogNormal, Gamma, HalfNormal, HalfCauchy, Uniform, "
        "SmoothedBox, Horseshoe, MultivariateNormal, LKJCovariance, LKJ, LKJCholeskyFactor) and a constraint class (Positive, GreaterThan, "
        "Interval, LessThan; softplus/sigmoid or exp transform; initial_value) whose bounds / parameters depend on the seed, as do all parameter "
        "values, grids, active_dims, inducing points, variational parameters and random features. History before the save point: none / "
        "optimiser steps / eval-mode predictions (with or without autograd, with or without the likelihood) / both, ending in train or eval "
        "mode. Mechanisms per case: state_dict -> torch.save -> torch.load -> load_state_dict(strict=True) into the same recipe built with "
        "another seed (observed first with its own values when dst_warm), pickle, deepcopy. Oracle (the original is overwritten in place after the save point and its observation, so a copy sharing storage with it shows): the original observed after the save "
        "point (first eval prediction, training-mode output, objective with prior / added-loss terms, gradient of every parameter, second eval "
        "prediction + likelihood output); bitwise for pickle / deepcopy (first prediction after a deepcopy / load, where caches are rebuilt: 1e-8), 1e-12 for state_dict; training "
        "flags equal. Non-trivial: non-empty history, or a non-default prior / constraint, or a randomly initialised buffer / parameter; "
        "distinct = distinct canonical case.")
GROUP_SIZES = {"exact.kernels": (600, 15000), "exact.structured": (120, 3000), "exact.likelihoods": (150, 3500), "exact.multitask": (250, 6000),
               "svgp.strategies": (700, 16000), "svgp.multitask": (250, 6000), "model_list": (60, 1500)}
GROUPS = sorted({e.group for e in REGISTRY.values()})
SUBCHECKS = [Subcheck("registry.sweep", run_case, enumerate=enumerate_sweep,
                      exhaustive_note="every registry entry x 4 history kinds x 3 (quick) / 12 (thorough) seeded architectures, all three mechanisms each")] + [
    Subcheck(g, run_case, strategy=group_strategy(g), quick=GROUP_SIZES[g][0], thorough=GROUP_SIZES[g][1], min_shard=20) for g in GROUPS
]
SPEC = PropertySpec(
    pid="C18",
    rule=RULE,
    assumptions=[
        "float64 CPU; both sides of every comparison run the same code on the same data under the same torch seed",
        "training data, fixed-noise vectors, Dirichlet-transformed targets and the inducing points of NNVariationalStrategy (= the training "
        "inputs) are constructor data handed to both models of the state_dict route",
        "buffers that the library creates at the first call (lazily created RFF weights) exist on both sides: the original and the destination "
        "have each made one call before the save / load",
        "deepcopy of a grid kernel whose eval-mode covariance cache was built with autograd enabled is refused by torch (non-leaf tensors): counted, "
        "not judged; the same refusal for exact prediction strategies and variational strategies is a violation because the library drops those caches on deepcopy",
        "combinations the library refuses to construct are not in the registry: Grid/AdditiveGrid x Delta, AdditiveGrid x MeanField, BatchDecoupled x "
        "Delta, NearestNeighbor x anything but MeanField; batched HammingIMQKernel (F15); MultiDeviceKernel / KeOps / Pyro (not installed)",
        "optimiser steps clip the gradient norm to 1; cases whose original leaves the well-conditioned region (NotPSDError / NanError / non-finite "
        "objective) are discarded and counted",
    ],
    subchecks=SUBCHECKS,
)

"""C18 - persistence round trips reproduce the model exactly.

A case is {entry, arch, seeds: {data, src, dst}, history, dst_warm}.  `entry` names a recipe of the registry below; `arch`
is everything the user would call "the architecture" (classes, shapes, which parameters carry which prior / constraint
classes, transforms); the *values* of everything a model carries (parameter values, constraint bounds, prior parameters,
grids, random features, active_dims, inducing points, variational parameters) are a deterministic function of an integer
seed, so that the same recipe with another seed is "a freshly constructed model of the same architecture" that differs in
every stored number.  Training data, fixed-noise vectors and transformed classification targets are constructor *data*
(seed `data`) and are handed to both.

Per case: build the original (seed src), run the history, take the save point with three mechanisms
    (a) state_dict() -> torch.save -> torch.load -> load_state_dict(strict=True) into the recipe built with seed dst
        (which has first been observed with its own values when dst_warm, so that stale caches would show),
    (b) pickle.dumps / pickle.loads,   (c) copy.deepcopy,
then observe the original and every restored model with the same procedure and compare: eval-mode prediction made
immediately (caches as carried), training-mode output, objective (exact MLL with prior terms and added loss terms /
ELBO / sum MLL), the gradient of the objective for every parameter, and a second eval-mode prediction + likelihood output.
Bitwise for pickle / deepcopy, <= 1e-12 for the state_dict route (both sides run the same float64 code on the same data)."""
from __future__ import annotations

import copy
import io
import math
import pickle
import random
import zlib
from dataclasses import dataclass, field
from typing import Callable, Optional

import torch
from hypothesis import strategies as st

import gpytorch
from gpytorch import constraints as C
from gpytorch import kernels as K
from gpytorch import likelihoods as L
from gpytorch import means as M
from gpytorch import priors as P
from gpytorch import variational as V
from gpytorch.distributions import MultitaskMultivariateNormal, MultivariateNormal
from linear_operator.utils.errors import NanError, NotPSDError

from pbt.core import Ctx, Discard, LibraryFailure, PropertySpec, Subcheck

T = torch.tensor
F64 = torch.float64


# ---------------------------------------------------------------------------------------------------
# sources of structure (Pick) and of values (Vals)
# ---------------------------------------------------------------------------------------------------
class HypPick:
    """structure choices drawn by Hypothesis"""

    def __init__(self, draw):
        self.draw = draw

    def choice(self, xs):
        return self.draw(st.sampled_from(list(xs)))

    def int(self, lo, hi):
        return self.draw(st.integers(lo, hi))

    def bool(self):
        return self.draw(st.booleans())


class SeedPick:
    """structure choices from a seeded generator (deterministic enumeration tier)"""

    def __init__(self, seed):
        self.r = random.Random(seed)

    def choice(self, xs):
        xs = list(xs)
        return xs[self.r.randrange(len(xs))]

    def int(self, lo, hi):
        return self.r.randint(lo, hi)

    def bool(self):
        return self.r.random() < 0.5


class Vals:
    """every stored number of a model is drawn from here: a pure function of the seed and of the call sequence"""

    def __init__(self, seed):
        self.g = torch.Generator().manual_seed(int(seed))

    def f(self, lo, hi):
        return float(torch.rand((), generator=self.g, dtype=F64)) * (hi - lo) + lo

    def t(self, shape, lo, hi):
        return torch.rand(tuple(shape), generator=self.g, dtype=F64) * (hi - lo) + lo

    def n(self, shape, scale=1.0):
        return torch.randn(tuple(shape), generator=self.g, dtype=F64) * scale

    def perm(self, n):
        return torch.randperm(n, generator=self.g).tolist()

    def dims(self, D, k):
        """k sorted distinct active dimensions out of D"""
        return tuple(sorted(self.perm(D)[:k]))

    def spd(self, n, jitter=0.5):
        a = self.n((n, n), 0.5)
        return a @ a.T + jitter * torch.eye(n, dtype=F64)

    def distinct_points(self, m, d, lo=-2.0, hi=2.0):
        """m points, pairwise at least 0.35 apart in the first coordinate (inducing points: keeps K_zz well conditioned)"""
        base = torch.linspace(lo, hi, m, dtype=F64)
        width = (hi - lo) / max(m - 1, 1)
        first = base + self.t((m,), -0.2, 0.2) * width
        rest = self.t((m, d - 1), lo, hi)
        return torch.cat([first[:, None], rest], -1)[torch.tensor(self.perm(m))]


# ---------------------------------------------------------------------------------------------------
# decorations: priors and constraints with seed-dependent parameters
# ---------------------------------------------------------------------------------------------------
POS_PRIORS = ["Normal", "LogNormal", "Gamma", "HalfNormal", "HalfCauchy", "Uniform", "SmoothedBox", "Horseshoe"]
REAL_PRIORS = ["Normal", "Uniform", "SmoothedBox"]
POS_CONSTRAINTS = ["Positive", "PositiveExp", "GreaterThan", "GreaterThanExp", "Interval", "IntervalInit"]
REAL_CONSTRAINTS = ["Interval", "LessThan", "GreaterThan"]


def make_prior(kind, v: Vals, positive=True, size=None):
    if kind == "Normal":
        return P.NormalPrior(v.f(0.5, 2.0) if positive else v.f(-1, 1), v.f(0.5, 2.0))
    if kind == "LogNormal":
        return P.LogNormalPrior(v.f(-1, 1), v.f(0.5, 2.0))
    if kind == "Gamma":
        return P.GammaPrior(v.f(1.0, 3.0), v.f(0.5, 3.0))
    if kind == "HalfNormal":
        return P.HalfNormalPrior(v.f(0.5, 3.0))
    if kind == "HalfCauchy":
        return P.HalfCauchyPrior(v.f(0.5, 3.0))
    if kind == "Uniform":
        # wide enough that every value the recipes use (and a few clipped optimiser steps) stays inside the support
        return P.UniformPrior(v.f(0.0, 0.01), v.f(50.0, 100.0)) if positive else P.UniformPrior(v.f(-90.0, -50.0), v.f(50.0, 90.0))
    if kind == "SmoothedBox":
        return P.SmoothedBoxPrior(v.f(0.01, 0.1), v.f(3.0, 6.0), sigma=v.f(0.05, 0.5)) if positive else \
            P.SmoothedBoxPrior(v.f(-3.0, -1.0), v.f(1.0, 3.0), sigma=v.f(0.05, 0.5))
    if kind == "Horseshoe":
        return P.HorseshoePrior(v.f(0.1, 2.0))
    if kind == "MVN":
        return P.MultivariateNormalPrior(v.t((size,), 0.5, 1.5), covariance_matrix=v.spd(size))
    raise KeyError(kind)


def make_constraint(kind, v: Vals, positive=True):
    if positive:
        if kind == "Positive":
            return C.Positive()
        if kind == "PositiveExp":
            return C.Positive(transform=torch.exp, inv_transform=torch.log)
        if kind == "GreaterThan":
            return C.GreaterThan(v.f(1e-4, 5e-2))
        if kind == "GreaterThanExp":
            return C.GreaterThan(v.f(1e-4, 5e-2), transform=torch.exp, inv_transform=torch.log)
        if kind == "Interval":
            return C.Interval(v.f(1e-3, 5e-2), v.f(20.0, 60.0))
        if kind == "IntervalInit":
            return C.Interval(v.f(1e-3, 5e-2), v.f(20.0, 60.0), initial_value=v.f(0.5, 1.5))
    else:
        if kind == "Interval":
            return C.Interval(v.f(-9.0, -5.0), v.f(5.0, 9.0))
        if kind == "LessThan":
            return C.LessThan(v.f(5.0, 9.0))
        if kind == "GreaterThan":
            return C.GreaterThan(v.f(-9.0, -5.0))
    raise KeyError(kind)


class Deco:
    """hands out `<name>_prior` / `<name>_constraint` constructor kwargs following the arch's decoration list"""

    def __init__(self, slots, v: Vals):
        self.slots = list(slots or [])
        self.v = v
        self.i = 0
        self.used_priors = []
        self.used_constraints = []

    def _next(self):
        if not self.slots:
            return None, None
        s = self.slots[self.i % len(self.slots)]
        self.i += 1
        return s[0], s[1]

    def kw(self, name, positive=True, prior=True, constraint=True, prior_name=None, mvn_size=None):
        pk, ck = self._next()
        out = {}
        if pk is not None and prior:
            if not positive and pk not in REAL_PRIORS:
                pk = "Normal"
            if pk == "MVN" and mvn_size is None:
                pk = "Gamma"
            out[prior_name or f"{name}_prior"] = make_prior(pk, self.v, positive, mvn_size)
            self.used_priors.append(pk)
        if ck is not None and constraint:
            if not positive and ck not in REAL_CONSTRAINTS:
                ck = "Interval"
            if positive and ck not in POS_CONSTRAINTS:
                ck = "Interval"
            out[f"{name}_constraint"] = make_constraint(ck, self.v, positive)
            self.used_constraints.append(ck)
        return out


def deco_slots(p, rich=True):
    """0-3 decoration slots (prior kind | None, constraint kind | None); an empty list = library defaults everywhere"""
    n = p.choice([0, 1, 2, 3] if rich else [0, 0, 1])
    return [[p.choice([None] + POS_PRIORS + ["MVN"]), p.choice([None] + POS_CONSTRAINTS)] for _ in range(n)]


def randomize(model, v: Vals):
    """give every constrained raw parameter a seed-dependent value inside a comfortable window of its constraint, and
    every unconstrained parameter that the builders have not set themselves a seed-dependent perturbation"""
    with torch.no_grad():
        for mod in model.modules():
            cons = getattr(mod, "_constraints", None)
            for pname, p in mod._parameters.items():
                if p is None or getattr(p, "_c18_set", False):
                    continue
                c = cons.get(pname + "_constraint") if cons is not None else None
                if c is not None:
                    lo = c.lower_bound.to(p.dtype)
                    hi = c.upper_bound.to(p.dtype)
                    pos = bool((lo >= 0).all())
                    a, b = (0.3, 2.0) if pos else (-1.0, 1.0)
                    wlo = torch.where(torch.isfinite(lo), lo + 1e-3 * (1 + lo.abs()), torch.full_like(lo, a)).clamp_min(a)
                    whi = torch.where(torch.isfinite(hi), hi - 1e-3 * (1 + hi.abs()), torch.full_like(hi, b)).clamp_max(b)
                    whi = torch.maximum(whi, wlo)
                    target = wlo + (whi - wlo) * v.t(p.shape, 0.0, 1.0)
                    p.copy_(c.inverse_transform(target))
                else:
                    p.add_(v.n(p.shape, 0.3))


def mark_set(*params):
    for p in params:
        p._c18_set = True


# ---------------------------------------------------------------------------------------------------
# model classes (module level: pickling must exercise the library, not a local-class limitation)
# ---------------------------------------------------------------------------------------------------
class GPModel(gpytorch.models.ExactGP):
    def __init__(self, train_x, train_y, likelihood, mean_module, covar_module):
        super().__init__(train_x, train_y, likelihood)
        self.mean_module = mean_module
        self.covar_module = covar_module

    def forward(self, *x):
        return MultivariateNormal(self.mean_module(*x), self.covar_module(*x))


class MultitaskGPModel(gpytorch.models.ExactGP):
    def __init__(self, train_x, train_y, likelihood, mean_module, covar_module):
        super().__init__(train_x, train_y, likelihood)
        self.mean_module = mean_module
        self.covar_module = covar_module

    def forward(self, x):
        return MultitaskMultivariateNormal(self.mean_module(x), self.covar_module(x))


class BatchIndependentMultitaskGPModel(gpytorch.models.ExactGP):
    def __init__(self, train_x, train_y, likelihood, mean_module, covar_module):
        super().__init__(train_x, train_y, likelihood)
        self.mean_module = mean_module
        self.covar_module = covar_module

    def forward(self, x):
        return MultitaskMultivariateNormal.from_batch_mvn(MultivariateNormal(self.mean_module(x), self.covar_module(x)))


class HadamardGPModel(gpytorch.models.ExactGP):
    def __init__(self, train_inputs, train_y, likelihood, mean_module, covar_module, task_covar_module):
        super().__init__(train_inputs, train_y, likelihood)
        self.mean_module = mean_module
        self.covar_module = covar_module
        self.task_covar_module = task_covar_module

    def forward(self, x, i):
        return MultivariateNormal(self.mean_module(x), self.covar_module(x).mul(self.task_covar_module(i)))


class SVGPModel(gpytorch.models.ApproximateGP):
    """the documented pattern: the strategy is created inside __init__ with `self` as its model"""

    def __init__(self, make_strategy, mean_module, covar_module, likelihood):
        super().__init__(make_strategy(self))
        self.mean_module = mean_module
        self.covar_module = covar_module
        self.likelihood = likelihood

    def forward(self, x):
        return MultivariateNormal(self.mean_module(x), self.covar_module(x))


class AdditiveGridSVGPModel(gpytorch.models.ApproximateGP):
    def __init__(self, make_strategy, mean_module, covar_module, likelihood):
        super().__init__(make_strategy(self))
        self.mean_module = mean_module
        self.covar_module = covar_module
        self.likelihood = likelihood

    def forward(self, x):
        return MultivariateNormal(self.mean_module(x), self.covar_module(x))


class NNSVGPModel(gpytorch.models.ApproximateGP):
    def __init__(self, make_strategy, mean_module, covar_module, likelihood):
        super().__init__(make_strategy(self))
        self.mean_module = mean_module
        self.covar_module = covar_module
        self.likelihood = likelihood

    def forward(self, x):
        return MultivariateNormal(self.mean_module(x), self.covar_module(x))

    def __call__(self, x, prior=False, **kwargs):
        if x is not None and x.dim() == 1:
            x = x.unsqueeze(-1)
        return self.variational_strategy(x=x, prior=False, **kwargs)


# ---------------------------------------------------------------------------------------------------
# registry
# ---------------------------------------------------------------------------------------------------
@dataclass
class Entry:
    name: str
    family: str  # exact | svgp | list
    arch: Callable  # Pick -> arch dict (JSON)
    build: Callable  # (arch, Vals, data) -> model (with .likelihood)
    data: Optional[Callable] = None  # (arch, Vals) -> data dict; default: generic regression data
    group: str = "exact.kernels"
    random_buffer: bool = False  # the model carries a randomly drawn buffer / parameter initialisation
    needs_forward: bool = False  # buffers are created by the first call: the original always has one call before the save
    warm_only: bool = False  # ... and so has the destination of the state_dict route
    exact_tol: float = 0.0  # tolerance of the pickle / deepcopy comparison (0 = bitwise)


REGISTRY: dict[str, Entry] = {}


def register(name, family, group, arch, build, **kw):
    REGISTRY[name] = Entry(name=name, family=family, arch=arch, build=build, group=group, **kw)


def generic_data(arch, v: Vals):
    d, n, ns = arch.get("d", 2), arch.get("n", 6), arch.get("ns", 3)
    bs = list(arch.get("batch", []))
    X = v.t((n, d), -2.0, 2.0)
    return {"train_inputs": (X,), "y": v.t(bs + [n], -1.5, 1.5), "test_inputs": (v.t((ns, d), -2.5, 2.5),), "test_noise": v.t((ns,), 0.05, 0.5),
            "fixed_noise": v.t((n,), 0.05, 0.5)}


def base_arch(p, d_choices=(1, 2, 3), batch=False):
    return {"d": p.choice(d_choices), "n": p.int(4, 7), "ns": p.int(1, 3), "mean": p.choice(["Zero", "Constant", "Constant", "Linear"]),
            "lik": p.choice(["Gaussian", "Gaussian", "Gaussian", "FixedNoise", "FixedNoise+"]), "deco": deco_slots(p),
            "batch": p.choice([[], [], [], [2]]) if batch else []}


def build_mean(arch, v: Vals, D: Deco, d=None):
    bs = torch.Size(arch.get("batch", []))
    kind = arch.get("mean", "Constant")
    if kind == "Zero":
        return M.ZeroMean(batch_shape=bs)
    if kind == "Constant":
        return M.ConstantMean(batch_shape=bs, **D.kw("constant", positive=False))
    m = M.LinearMean(d if d is not None else arch["d"], batch_shape=bs)
    return m


def build_likelihood(arch, v: Vals, D: Deco, data):
    bs = torch.Size(arch.get("batch", []))
    kind = arch.get("lik", "Gaussian")
    if kind == "Gaussian":
        return L.GaussianLikelihood(batch_shape=bs, **D.kw("noise"))
    if kind == "GaussianMissing":
        return L.GaussianLikelihoodWithMissingObs(batch_shape=bs, **D.kw("noise"))
    if kind in ("FixedNoise", "FixedNoise+"):
        return L.FixedNoiseGaussianLikelihood(noise=data["fixed_noise"], learn_additional_noise=kind.endswith("+"), batch_shape=bs,
                                              **(D.kw("noise") if kind.endswith("+") else {}))
    raise KeyError(kind)


def finish_exact(arch, v, D, data, covar, cls=GPModel, lik=None, mean=None):
    lik = lik if lik is not None else build_likelihood(arch, v, D, data)
    mean = mean if mean is not None else build_mean(arch, v, D)
    ti = data["train_inputs"]
    model = cls(ti[0] if len(ti) == 1 else ti, data["y"], lik, mean, covar)
    randomize(model, v)
    model._c18 = {"priors": sorted(set(D.used_priors)), "constraints": sorted(set(D.used_constraints))}
    return model


def maybe_scale(arch, D, k):
    if arch.get("scale", True):
        return K.ScaleKernel(k, batch_shape=torch.Size(arch.get("batch", [])), **D.kw("outputscale"))
    return k


def stationary_kwargs(arch, v, D, name="lengthscale"):
    """ard / active_dims / batch kwargs shared by the kernels with a lengthscale"""
    d = arch["d"]
    kw = {"batch_shape": torch.Size(arch.get("batch", []))}
    dk = d
    if arch.get("ad") and d >= 2:
        dk = d - 1
        kw["active_dims"] = v.dims(d, dk)  # a buffer: differs between the seeds and travels in the state_dict
    if arch.get("ard"):
        kw["ard_num_dims"] = dk
    kw.update(D.kw(name, mvn_size=dk if arch.get("ard") else 1))
    return kw, dk


def _simple_kernel(make):
    def build(arch, v, data):
        D = Deco(arch["deco"], v)
        kw, dk = stationary_kwargs(arch, v, D)
        k = make(arch, v, D, kw, dk)
        return finish_exact(arch, v, D, data, maybe_scale(arch, D, k))

    return build


def _simple_arch(extra=None, batch=True, d_choices=(1, 2, 3)):
    def arch(p):
        a = base_arch(p, d_choices=d_choices, batch=batch)
        a.update(ard=p.bool(), ad=p.choice([False, False, True]), scale=p.choice([True, True, False]))
        if extra:
            a.update(extra(p))
        return a

    return arch


register("exact.rbf", "exact", "exact.kernels", _simple_arch(), _simple_kernel(lambda a, v, D, kw, dk: K.RBFKernel(**kw)))
register("exact.matern", "exact", "exact.kernels", _simple_arch(lambda p: {"nu": p.choice([0.5, 1.5, 2.5])}),
         _simple_kernel(lambda a, v, D, kw, dk: K.MaternKernel(nu=a["nu"], **kw)))
register("exact.rq", "exact", "exact.kernels", _simple_arch(),
         _simple_kernel(lambda a, v, D, kw, dk: K.RQKernel(**D.kw("alpha", prior=False), **kw)))
register("exact.periodic", "exact", "exact.kernels", _simple_arch(),
         _simple_kernel(lambda a, v, D, kw, dk: K.PeriodicKernel(**D.kw("period_length"), **kw)))
register("exact.piecewise_polynomial", "exact", "exact.kernels", _simple_arch(lambda p: {"q": p.int(0, 3)}),
         _simple_kernel(lambda a, v, D, kw, dk: K.PiecewisePolynomialKernel(q=a["q"], **kw)))


def _nolength(arch, v, D, with_ard=False):
    """kwargs for kernels without a lengthscale"""
    kw, dk = stationary_kwargs(dict(arch, ard=arch.get("ard") and with_ard), v, Deco([], v))
    kw.pop("lengthscale_prior", None)
    kw.pop("lengthscale_constraint", None)
    return kw, dk


def _build_linear(arch, v, data):
    D = Deco(arch["deco"], v)
    kw, dk = _nolength(arch, v, D, with_ard=True)
    k = K.LinearKernel(**kw, **D.kw("variance"))
    return finish_exact(arch, v, D, data, maybe_scale(arch, D, k))


def _build_poly(arch, v, data):
    D = Deco(arch["deco"], v)
    kw, dk = _nolength(arch, v, D)
    k = K.PolynomialKernel(power=arch["power"], **kw, **D.kw("offset"))
    return finish_exact(arch, v, D, data, maybe_scale(arch, D, k))


def _build_cosine(arch, v, data):
    D = Deco(arch["deco"], v)
    kw, dk = _nolength(arch, v, D)
    k = K.CosineKernel(**kw, **D.kw("period_length"))
    # the cosine kernel is positive semi-definite only together with something else in d > 1: sum with an RBF
    k2 = K.RBFKernel(batch_shape=kw["batch_shape"], **D.kw("lengthscale"))
    return finish_exact(arch, v, D, data, maybe_scale(arch, D, k) + K.ScaleKernel(k2, batch_shape=kw["batch_shape"]))


def _build_constant(arch, v, data):
    D = Deco(arch["deco"], v)
    bs = torch.Size(arch.get("batch", []))
    k = K.ConstantKernel(batch_shape=bs, **D.kw("constant"))
    k2 = K.RBFKernel(batch_shape=bs, **D.kw("lengthscale"))
    return finish_exact(arch, v, D, data, k + k2 if arch["sum"] else k * k2)


register("exact.linear", "exact", "exact.kernels", _simple_arch(), _build_linear)
register("exact.polynomial", "exact", "exact.kernels", _simple_arch(lambda p: {"power": p.int(1, 3)}), _build_poly)
register("exact.cosine", "exact", "exact.kernels", _simple_arch(), _build_cosine)
register("exact.constant", "exact", "exact.kernels", _simple_arch(lambda p: {"sum": p.bool()}), _build_constant)


# ---- spectral / random-feature kernels ---------------------------------------------------------------
def _build_sm(arch, v, data):
    D = Deco(arch["deco"], v)
    d, q = arch["d"], arch["q"]
    bs = torch.Size(arch.get("batch", []))
    k = K.SpectralMixtureKernel(num_mixtures=q, ard_num_dims=d, batch_shape=bs, **D.kw("mixture_scales", prior=False), **D.kw("mixture_means", prior=False),
                                **D.kw("mixture_weights", prior=False))  # "Priors not implemented for SpectralMixtureKernel"
    if arch["init"] == "from_data":
        k.initialize_from_data(data["train_inputs"][0], data["y"].reshape(-1, data["y"].shape[-1])[0])
    return finish_exact(arch, v, D, data, k)


def _build_sd(arch, v, data):
    D = Deco(arch["deco"], v)
    kw, dk = stationary_kwargs(dict(arch, ard=False, ad=False), v, D)
    k = K.SpectralDeltaKernel(num_dims=arch["d"], num_deltas=arch["deltas"], **D.kw("Z", prior=False), **kw)
    return finish_exact(arch, v, D, data, maybe_scale(arch, D, k))


def _build_rff(lazy):
    def build(arch, v, data):
        D = Deco(arch["deco"], v)
        kw, dk = stationary_kwargs(dict(arch, ad=False), v, D)
        k = K.RFFKernel(num_samples=arch["samples"], num_dims=None if lazy else arch["d"], **kw)
        return finish_exact(arch, v, D, data, maybe_scale(arch, D, k))

    return build


register("exact.spectral_mixture", "exact", "exact.kernels",
         _simple_arch(lambda p: {"q": p.int(1, 3), "init": p.choice(["values", "from_data"]), "lik": "Gaussian"}), _build_sm)
register("exact.spectral_delta", "exact", "exact.kernels", _simple_arch(lambda p: {"deltas": p.int(3, 8)}), _build_sd, random_buffer=True)
register("exact.rff_eager", "exact", "exact.kernels", _simple_arch(lambda p: {"samples": p.int(2, 9)}), _build_rff(False), random_buffer=True)
register("exact.rff_lazy", "exact", "exact.kernels", _simple_arch(lambda p: {"samples": p.int(2, 9)}), _build_rff(True), random_buffer=True,
         needs_forward=True, warm_only=True)


# ---- kernels with special inputs -----------------------------------------------------------------------
def _unit_ball_data(arch, v):
    dat = generic_data(arch, v)
    dat["train_inputs"] = (dat["train_inputs"][0] / 5.0,)
    dat["test_inputs"] = (dat["test_inputs"][0] / 5.0,)
    return dat


def _build_arc(arch, v, data):
    D = Deco(arch["deco"], v)
    bs = torch.Size(arch.get("batch", []))
    base = K.MaternKernel(nu=2.5, batch_shape=bs, **D.kw("lengthscale"))
    k = K.ArcKernel(base, ard_num_dims=arch["d"] if arch["ard"] else None, batch_shape=bs, **D.kw("angle", constraint=False), **D.kw("radius", constraint=False))
    return finish_exact(arch, v, D, data, maybe_scale(arch, D, k))


def _build_cylindrical(arch, v, data):
    D = Deco(arch["deco"], v)
    bs = torch.Size(arch.get("batch", []))
    base = K.MaternKernel(nu=2.5, batch_shape=bs, **D.kw("lengthscale"))
    k = K.CylindricalKernel(arch["weights"], base, batch_shape=bs, **D.kw("angular_weights"), **D.kw("alpha"), **D.kw("beta"))
    return finish_exact(arch, v, D, data, maybe_scale(arch, D, k))


def _hamming_data(arch, v):
    n, ns, seq, vocab = arch["n"], arch["ns"], arch["seq"], arch["vocab"]
    bs = list(arch.get("batch", []))

    def cat(m):
        idx = (v.t((m, seq), 0.0, 1.0) * vocab).long().clamp_max(vocab - 1)
        return torch.nn.functional.one_hot(idx, vocab).reshape(m, seq * vocab).to(F64)

    return {"train_inputs": (cat(n),), "y": v.t(bs + [n], -1.5, 1.5), "test_inputs": (cat(ns),), "test_noise": v.t((ns,), 0.05, 0.5),
            "fixed_noise": v.t((n,), 0.05, 0.5)}


def _build_hamming(arch, v, data):
    D = Deco(arch["deco"], v)
    bs = torch.Size(arch.get("batch", []))
    k = K.HammingIMQKernel(vocab_size=arch["vocab"], batch_shape=bs, **D.kw("alpha"), **D.kw("beta"))
    return finish_exact(dict(arch, mean="Constant" if arch["mean"] == "Linear" else arch["mean"]), v, D, data, maybe_scale(arch, D, k))


def _dist_data(arch, v):
    dat = generic_data(arch, v)
    d = arch["d"]
    dat["train_inputs"] = (torch.cat([dat["train_inputs"][0], v.t((arch["n"], d), -2.0, 0.0)], -1),)
    dat["test_inputs"] = (torch.cat([dat["test_inputs"][0], v.t((arch["ns"], d), -2.0, 0.0)], -1),)
    return dat


def _build_dist(arch, v, data):
    D = Deco(arch["deco"], v)
    bs = torch.Size(arch.get("batch", []))
    k = K.GaussianSymmetrizedKLKernel(batch_shape=bs, **D.kw("lengthscale"))
    return finish_exact(dict(arch, mean="Constant" if arch["mean"] == "Linear" else arch["mean"]), v, D, data, maybe_scale(arch, D, k))


register("exact.arc", "exact", "exact.kernels", _simple_arch(), _build_arc, data=_unit_ball_data)
register("exact.cylindrical", "exact", "exact.kernels", _simple_arch(lambda p: {"weights": p.int(1, 4)}, d_choices=(2, 3)), _build_cylindrical,
         data=_unit_ball_data)
# (no batch shape: batched HammingIMQKernel is finding F15 of another property)
register("exact.hamming", "exact", "exact.kernels", _simple_arch(lambda p: {"vocab": p.int(2, 4), "seq": p.int(2, 4)}, batch=False), _build_hamming,
         data=_hamming_data)
register("exact.gaussian_symmetrized_kl", "exact", "exact.kernels", _simple_arch(d_choices=(1, 2)), _build_dist, data=_dist_data)


# ---- composite kernels ---------------------------------------------------------------------------------
LEAVES = ["RBF", "Matern", "RQ", "Periodic", "Linear", "Polynomial"]


def _leaf(kind, arch, v, D):
    d = arch["d"]
    bs = torch.Size(arch.get("batch", []))
    kw = {"batch_shape": bs}
    if d >= 2 and v.f(0, 1) < 2.0 and arch.get("ad"):
        kw["active_dims"] = v.dims(d, d - 1)
    if kind == "RBF":
        return K.RBFKernel(**kw, **D.kw("lengthscale"))
    if kind == "Matern":
        return K.MaternKernel(nu=1.5, **kw, **D.kw("lengthscale"))
    if kind == "RQ":
        return K.RQKernel(**kw, **D.kw("lengthscale"))
    if kind == "Periodic":
        return K.PeriodicKernel(**kw, **D.kw("lengthscale"), **D.kw("period_length"))
    if kind == "Linear":
        return K.LinearKernel(**kw, **D.kw("variance"))
    if kind == "Polynomial":
        return K.PolynomialKernel(power=2, **kw, **D.kw("offset"))
    raise KeyError(kind)


def _build_composite(op):
    def build(arch, v, data):
        D = Deco(arch["deco"], v)
        parts = [_leaf(kd, arch, v, D) for kd in arch["parts"]]
        parts = [K.ScaleKernel(k_, batch_shape=k_.batch_shape, **D.kw("outputscale")) if sc else k_ for k_, sc in zip(parts, arch["scaled"])]
        k = parts[0]
        for k2 in parts[1:]:
            k = k + k2 if op == "add" else k * k2
        if op == "mul":
            k = k + K.ScaleKernel(K.RBFKernel(batch_shape=parts[0].batch_shape))  # keeps products of low-rank kernels full rank
        return finish_exact(arch, v, D, data, k)

    return build


def _composite_arch(p):
    a = base_arch(p, batch=True)
    n = p.int(2, 3)
    a.update(parts=[p.choice(LEAVES) for _ in range(n)], scaled=[p.bool() for _ in range(n)], ad=p.bool())
    return a


def _build_structure(kind):
    def build(arch, v, data):
        D = Deco(arch["deco"], v)
        d = arch["d"]
        if kind == "newton_girard":
            base = K.RBFKernel(ard_num_dims=d, **D.kw("lengthscale"))
            k = K.NewtonGirardAdditiveKernel(base, num_dims=d, max_degree=arch["degree"])
        else:
            base = K.RBFKernel(**D.kw("lengthscale")) if arch["leaf"] == "RBF" else K.MaternKernel(nu=2.5, **D.kw("lengthscale"))
            k = (K.AdditiveStructureKernel if kind == "additive_structure" else K.ProductStructureKernel)(base, num_dims=d)
        return finish_exact(arch, v, D, data, maybe_scale(arch, D, k))

    return build


def _structure_arch(p):
    a = base_arch(p, d_choices=(2, 3))
    a.update(leaf=p.choice(["RBF", "Matern"]), degree=p.int(1, 2), scale=p.bool())
    return a


register("exact.additive", "exact", "exact.kernels", _composite_arch, _build_composite("add"))
register("exact.product", "exact", "exact.kernels", _composite_arch, _build_composite("mul"))
register("exact.additive_structure", "exact", "exact.kernels", _structure_arch, _build_structure("additive_structure"))
register("exact.product_structure", "exact", "exact.kernels", _structure_arch, _build_structure("product_structure"))
register("exact.newton_girard", "exact", "exact.kernels", _structure_arch, _build_structure("newton_girard"))


# ---- structure-exploiting kernels ----------------------------------------------------------------------
def _grid_data(arch, v):
    """training inputs = the full grid of the *original's* seed-independent grid (data), so that the Toeplitz/Kronecker path is taken"""
    d, g = arch["d"], arch["g"]
    grid = [torch.linspace(-1.0 - 0.1 * i, 1.0 + 0.2 * i, g, dtype=F64) for i in range(d)]
    from gpytorch.utils.grid import create_data_from_grid

    X = create_data_from_grid(grid)
    n, ns = X.shape[0], arch["ns"]
    return {"train_inputs": (X,), "y": v.t((n,), -1.5, 1.5), "test_inputs": (v.t((ns, d), -1.0, 1.0),), "test_noise": v.t((ns,), 0.05, 0.5),
            "fixed_noise": v.t((n,), 0.05, 0.5), "grid": grid}


def _build_grid(arch, v, data):
    D = Deco(arch["deco"], v)
    base = K.RBFKernel(**D.kw("lengthscale")) if arch["leaf"] == "RBF" else K.MaternKernel(nu=1.5, **D.kw("lengthscale"))
    if arch["own_grid"]:
        # the grid is a buffer: a seed-dependent grid that the state_dict must replace by the original's
        grid = [torch.linspace(-1.0 - v.f(0.0, 0.5), 1.0 + v.f(0.0, 0.5), arch["g"], dtype=F64) for _ in range(arch["d"])]
    else:
        grid = [g.clone() for g in data["grid"]]
    k = K.GridKernel(base, grid=grid)
    return finish_exact(arch, v, D, data, maybe_scale(arch, D, k))


def _grid_arch(p):
    a = base_arch(p, d_choices=(1, 2))
    a.update(g=p.int(3, 4), leaf=p.choice(["RBF", "Matern"]), own_grid=p.bool(), scale=p.bool())
    return a


def _build_kiss(dynamic):
    def build(arch, v, data):
        D = Deco(arch["deco"], v)
        d = arch["d"]
        base = K.RBFKernel(ard_num_dims=d if arch["ard"] else None, **D.kw("lengthscale")) if arch["leaf"] == "RBF" else \
            K.MaternKernel(nu=2.5, **D.kw("lengthscale"))
        if dynamic:
            k = K.GridInterpolationKernel(base, grid_size=arch["g"], num_dims=d)
        else:
            # the grid buffers are derived from the bounds: seed-dependent bounds, all of them containing the data
            k = K.GridInterpolationKernel(base, grid_size=arch["g"], grid_bounds=[(-3.0 - v.f(0.0, 1.0), 3.0 + v.f(0.0, 1.0)) for _ in range(d)])
        return finish_exact(arch, v, D, data, maybe_scale(arch, D, k))

    return build


def _kiss_arch(p):
    a = base_arch(p, d_choices=(1, 2))
    a.update(g=p.int(6, 10), leaf=p.choice(["RBF", "Matern"]), ard=p.bool(), scale=p.bool())
    return a


def _build_sgpr(arch, v, data):
    D = Deco(arch["deco"], v)
    d = arch["d"]
    lik = build_likelihood(dict(arch, lik="Gaussian"), v, D, data)
    kw, dk = stationary_kwargs(dict(arch, ad=False), v, D)
    base = K.RBFKernel(**kw) if arch["leaf"] == "RBF" else K.MaternKernel(nu=2.5, **kw)
    base = maybe_scale(arch, D, base)
    k = K.InducingPointKernel(base, inducing_points=v.distinct_points(arch["m"], d), likelihood=lik)
    mark_set(k.inducing_points)
    return finish_exact(arch, v, D, data, k, lik=lik)


def _sgpr_arch(p):
    a = base_arch(p)
    a.update(m=p.int(2, 4), leaf=p.choice(["RBF", "Matern"]), ard=p.bool(), scale=p.bool(), lik="Gaussian")
    return a


register("exact.grid", "exact", "exact.structured", _grid_arch, _build_grid, data=_grid_data)
register("exact.kiss_fixed_grid", "exact", "exact.structured", _kiss_arch, _build_kiss(False))
register("exact.kiss_dynamic_grid", "exact", "exact.structured", _kiss_arch, _build_kiss(True))
register("exact.sgpr", "exact", "exact.structured", _sgpr_arch, _build_sgpr)


# ---------------------------------------------------------------------------------------------------
# observation of a model (identical procedure for the original and every restored model)
# ---------------------------------------------------------------------------------------------------
def objective_for(model, entry: Entry, data):
    if entry.family == "exact":
        return gpytorch.mlls.ExactMarginalLogLikelihood(model.likelihood, model)
    if entry.family == "list":
        return gpytorch.mlls.SumMarginalLogLikelihood(model.likelihood, model)
    return gpytorch.mlls.VariationalELBO(model.likelihood, model, num_data=int(data["num_data"]))


def _dist_tensors(tag, dist, out):
    if isinstance(dist, (list, tuple)):
        for i, d_ in enumerate(dist):
            _dist_tensors(f"{tag}[{i}]", d_, out)
        return
    if isinstance(dist, MultivariateNormal):
        out[f"{tag}.mean"] = dist.mean.detach().clone()
        out[f"{tag}.cov"] = dist.covariance_matrix.detach().clone()
    elif hasattr(dist, "probs"):
        out[f"{tag}.probs"] = dist.probs.detach().clone()
    else:
        out[f"{tag}.mean"] = dist.mean.detach().clone()
        out[f"{tag}.var"] = dist.variance.detach().clone()


def call_likelihood(model, entry, data, post):
    lik = model.likelihood
    if entry.family == "list":
        return lik(*post)
    if isinstance(lik, L.FixedNoiseGaussianLikelihood) and not isinstance(lik, L.DirichletClassificationLikelihood):
        return lik(post, noise=data["test_noise"])
    if isinstance(lik, L.DirichletClassificationLikelihood):
        return lik(post, noise=data["test_noise_classes"])
    return lik(post)


def eval_predict(model, entry, data, tag, out, grad=False, through_likelihood=True):
    torch.manual_seed(4242)
    model.eval()
    xs = data["test_inputs"]
    if grad:
        post = model(*xs)
    else:
        with torch.no_grad():
            post = model(*xs)
    _dist_tensors(f"{tag}.post", post, out)
    if through_likelihood:
        torch.manual_seed(4243)
        with torch.no_grad():
            pred = call_likelihood(model, entry, data, post)
        _dist_tensors(f"{tag}.pred", pred, out)
    return post


def train_forward(model, entry, data):
    if entry.family == "svgp":
        return model(*data["train_inputs"])
    if entry.family == "list":
        return model(*model.train_inputs)
    return model(*model.train_inputs)


def train_targets(model, entry, data):
    if entry.family == "svgp":
        return data["y"]
    return model.train_targets


def observe(model, entry: Entry, data):
    out = {}
    eval_predict(model, entry, data, "eval0", out)  # caches exactly as the mechanism delivered them
    model.train()
    torch.manual_seed(4244)
    model.zero_grad()
    prior = train_forward(model, entry, data)
    _dist_tensors("train", prior, out)
    mll = objective_for(model, entry, data)
    obj = mll(prior, train_targets(model, entry, data))
    out["objective"] = obj.detach().clone()
    obj.sum().backward()
    for name, p in model.named_parameters():
        out[f"grad.{name}"] = torch.zeros_like(p) if p.grad is None else p.grad.detach().clone()
    model.zero_grad()
    eval_predict(model, entry, data, "eval1", out)
    return out


# ---------------------------------------------------------------------------------------------------
# history before the save point
# ---------------------------------------------------------------------------------------------------
def run_history(model, entry, data, ops):
    for op in ops:
        name = op["op"]
        if name == "step":
            model.train()
            mll = objective_for(model, entry, data)
            params = [p for p in model.parameters() if p.requires_grad]
            opt = torch.optim.Adam(params, lr=op["lr"]) if op["opt"] == "adam" else torch.optim.SGD(params, lr=op["lr"])
            for _ in range(op["n"]):
                opt.zero_grad()
                torch.manual_seed(op.get("seed", 5))
                loss = -mll(train_forward(model, entry, data), train_targets(model, entry, data))
                loss.sum().backward()
                torch.nn.utils.clip_grad_norm_(params, 1.0)  # keeps the walk inside the well-conditioned region
                opt.step()
            opt.zero_grad()
        elif name == "predict":
            eval_predict(model, entry, data, "h", {}, grad=op.get("grad", False), through_likelihood=op.get("lik", False))
        elif name == "train":
            model.train()
        elif name == "eval":
            model.eval()
        else:
            raise AssertionError(f"unknown op {name}")


def history_ops(p, kind):
    def steps():
        return {"op": "step", "opt": p.choice(["sgd", "adam"]), "lr": p.choice([0.01, 0.05, 0.1]), "n": p.int(1, 2)}

    def pred():
        return {"op": "predict", "grad": p.choice([False, False, True]), "lik": p.bool()}

    if kind == "none":
        return []
    if kind == "train":
        return [steps()] + ([{"op": "eval"}] if p.bool() else [])
    if kind == "eval":
        return [pred() for _ in range(p.int(1, 2))] + ([{"op": "train"}] if p.choice([False, False, True]) else [])
    ops = []
    for _ in range(p.int(2, 4)):
        ops.append(steps() if p.bool() else pred())
    if not any(o["op"] == "step" for o in ops):
        ops.insert(p.int(0, len(ops)), steps())
    if not any(o["op"] == "predict" for o in ops):
        ops.append(pred())
    return ops


# ---------------------------------------------------------------------------------------------------
# the check
# ---------------------------------------------------------------------------------------------------
MECHANISMS = ("state_dict", "pickle", "deepcopy")
NUMERIC = (NotPSDError, NanError)


def build_model(entry: Entry, arch, seed, data):
    torch.manual_seed(seed)  # library-side random initialisation (RFF weights, spectral deltas, ...) follows the seed too
    return entry.build(arch, Vals(seed), data)


def make_data(entry: Entry, arch, seed):
    v = Vals(seed)
    data = (entry.data or generic_data)(arch, v)
    data.setdefault("num_data", data["y"].shape[-1] if entry.family != "list" else 0)
    return data


def compare(ctx: Ctx, mech, got, want, tol):
    for k in want:
        if k not in got:
            ctx.check(f"{mech}.{k.split('.')[0]}", False, f"restored model produced no {k}")
    for k, w in want.items():
        if k not in got:
            continue
        # group the gradient assertions under one name; everything else under its own
        name = f"{mech}.grad" if k.startswith("grad.") else f"{mech}.{k}"
        if tol == 0.0:
            ctx.close(name, got[k], w, rtol=0.0, atol=0.0)
        else:
            ctx.close(name, got[k], w, rtol=tol, atol=tol)


def flags_of(model):
    return {n: m.training for n, m in model.named_modules()}


def run_case(case, ctx: Ctx):
    entry = REGISTRY[case["entry"]]
    arch = case["arch"]
    seeds = case["seeds"]
    ops = list(case["history"])
    data = make_data(entry, arch, seeds["data"])
    with ctx.observing("build"):
        src = build_model(entry, arch, seeds["src"], data)
    info = getattr(src, "_c18", {"priors": [], "constraints": []})
    ctx.cls = f"{entry.name}|priors={'+'.join(info['priors']) or '-'}"
    if entry.needs_forward and not any(o["op"] == "predict" for o in ops):
        ops = [{"op": "predict"}] + ops
    kinds = {o["op"] for o in ops}
    hist = "none" if not ops else ("both" if {"step", "predict"} <= kinds else ("train" if "step" in kinds else ("eval" if "predict" in kinds else "mode")))
    ctx.label(f"entry={entry.name}", f"history={hist}", f"group={entry.group}", *(f"prior={k}" for k in info["priors"]),
              *(f"constraint={k}" for k in info["constraints"]), f"dst_warm={int(case['dst_warm'])}")
    ctx.set_nontrivial(bool(ops) or bool(info["priors"]) or bool(info["constraints"]) or entry.random_buffer)

    try:
        with ctx.observing("history"):
            run_history(src, entry, data, ops)
    except LibraryFailure as e:
        if isinstance(e.__cause__, NUMERIC):
            ctx.violations.pop()
            raise Discard("history left the well-conditioned region") from None
        raise

    # ---- the save point ------------------------------------------------------------------------------
    saved = {}
    with ctx.observing("state_dict.save"):
        buf = io.BytesIO()
        torch.save(src.state_dict(), buf)
        saved["state_dict"] = buf.getvalue()
    try:
        with ctx.observing("pickle.save"):
            saved["pickle"] = pickle.dumps(src)
    except LibraryFailure:  # recorded as a violation by ctx.observing; the other mechanisms are still judged
        pass
    try:
        with ctx.observing("deepcopy.copy"):
            saved["deepcopy"] = copy.deepcopy(src)
    except LibraryFailure:
        pass
    src_flags = flags_of(src)

    try:
        with ctx.observing("observe.original"):
            want = observe(src, entry, data)
    except LibraryFailure as e:
        if isinstance(e.__cause__, NUMERIC):
            ctx.violations.pop()
            raise Discard("original is ill-conditioned at the save point") from None
        raise
    if not all(bool(torch.isfinite(t).all()) for t in want.values()):
        raise Discard("original produces non-finite outputs at the save point")

    # ---- (b) pickle, (c) deepcopy ----------------------------------------------------------------------
    for mech in ("pickle", "deepcopy"):
        if mech not in saved:
            continue
        try:
            with ctx.observing(f"{mech}.restore"):
                m2 = pickle.loads(saved[mech]) if mech == "pickle" else saved[mech]
                f2 = flags_of(m2)
            ctx.check(f"{mech}.training_flags", f2 == src_flags, f"training flags differ: {[k for k in src_flags if f2.get(k) != src_flags[k]][:5]}")
            with ctx.observing(f"{mech}.observe"):
                got = observe(m2, entry, data)
            compare(ctx, mech, got, want, entry.exact_tol)
        except LibraryFailure:
            pass

    # ---- (a) state_dict into the same recipe with another seed ---------------------------------------
    with ctx.observing("state_dict.build_destination"):
        dst = build_model(entry, arch, seeds["dst"], data)
    if case["dst_warm"] or entry.warm_only:
        try:
            with ctx.observing("state_dict.warm_destination"):
                observe(dst, entry, data)
        except LibraryFailure as e:
            if isinstance(e.__cause__, NUMERIC):
                ctx.violations.pop()
                raise Discard("destination is ill-conditioned with its own values") from None
            raise
    with ctx.observing("state_dict.load"):
        sd = torch.load(io.BytesIO(saved["state_dict"]))
        res = dst.load_state_dict(sd, strict=True)
        if res is not None:
            ctx.check("state_dict.keys", not res.missing_keys and not res.unexpected_keys, f"missing={res.missing_keys} unexpected={res.unexpected_keys}")
    with ctx.observing("state_dict.observe"):
        got = observe(dst, entry, data)
    # both sides run the same float64 code on the same numbers: 1e-12 leaves room only for re-association inside caches
    compare(ctx, "state_dict", got, want, 1e-12)


# ---------------------------------------------------------------------------------------------------
# case generators
# ---------------------------------------------------------------------------------------------------
HISTORY_KINDS = ["none", "train", "eval", "both"]


def make_case(p, name, hist_kind=None):
    entry = REGISTRY[name]
    arch = entry.arch(p)
    kind = hist_kind or p.choice(HISTORY_KINDS)
    return {"entry": name, "arch": arch, "seeds": {"data": p.int(0, 10**6), "src": p.int(0, 10**6), "dst": p.int(10**6 + 1, 2 * 10**6)},
            "history": history_ops(p, kind), "dst_warm": p.choice([True, True, False])}


def group_strategy(group):
    names = sorted(n for n, e in REGISTRY.items() if e.group == group)

    @st.composite
    def strat(draw):
        p = HypPick(draw)
        return make_case(p, p.choice(names))

    return strat


def enumerate_sweep(tier):
    reps = 3 if tier == "quick" else 12
    for name in sorted(REGISTRY):
        for kind in HISTORY_KINDS:
            for rep in range(reps):
                yield make_case(SeedPick(zlib.crc32(f"{name}|{kind}|{rep}".encode())), name, kind)


RULE = "TODO"
GROUPS = sorted({e.group for e in REGISTRY.values()})
SUBCHECKS = [Subcheck("registry.sweep", run_case, enumerate=enumerate_sweep)] + [
    Subcheck(g, run_case, strategy=group_strategy(g), quick=100, thorough=2000, min_shard=10) for g in GROUPS
]
SPEC = PropertySpec(pid="C18", rule=RULE, assumptions=[], subchecks=SUBCHECKS)

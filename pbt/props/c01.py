"""C01 - the evaluation-mode output of an exact GP is the Gaussian conditional of its own prior, on every
computational path the settings can select; the likelihood adds exactly the observation noise."""
from __future__ import annotations

import torch
from hypothesis import strategies as st

import gpytorch
from gpytorch import settings as S

from pbt import gpmodel as G
from pbt import kern
from pbt import mtmodel as MT
from pbt.core import Ctx, Discard, PropertySpec, Subcheck

T = torch.tensor


@st.composite
def posterior_case(draw, **kw):
    case = draw(G.exact_case(**kw))
    case["settings"] = draw(G.pred_settings(case["n"] + case["ns"]))
    if G.uses_lanczos(case["settings"]) and case["n"] < 3:
        case["settings"]["max_chol"] = 800  # the dependency's Lanczos needs at least a 3x3 matrix
    case["prior_mode"] = draw(st.integers(0, 11)) == 0
    case["second_call"] = draw(st.integers(0, 3)) == 0  # predict twice (second call served from the caches)
    case["torch_seed"] = draw(st.integers(0, 2**31 - 1))  # Lanczos start vectors are drawn by the library
    return case


@st.composite
def cg_larger_case(draw):
    """Systems on which CG needs (many) more than its minimum of 10 iterations: n in 40..150 points spread over [0, L]^d with L several
    length-scales, solves by CG (no Lanczos), the training tolerance cg_tolerance left at its loose default so that only
    eval_cg_tolerance makes the solves of a prediction exact.  The coordinates come from a torch generator seeded by a drawn integer
    and are stored in the case (replay does not depend on the generator)."""
    d = draw(st.integers(1, 3))
    n = draw(st.integers(40, 150))
    ns = draw(st.integers(1, 3))
    g = torch.Generator().manual_seed(draw(st.integers(0, 2**31 - 1)))
    L = draw(st.sampled_from([3.0, 6.0, 10.0]))
    rnd = lambda *shape: (torch.rand(*shape, generator=g, dtype=torch.float64) * 1e4).round() / 1e4
    case = {
        "d": d, "mb": [], "xb": [], "tb": [], "n": n, "ns": ns,
        "mean": draw(kern.mean_recipe(d, [])),
        "kernel": draw(kern.kernel_tree(d, [], depth=1, names=kern.STATIONARY, psd_only=True)),
        "lik": {"l": "Gaussian", "batch": [], "noise": [draw(kern.pos(0.01, 0.5))]},
        "X": (L * rnd(n, d)).tolist(), "y": (4 * rnd(n) - 2).tolist(), "Xs": (L * rnd(ns, d)).tolist(),
    }
    s = draw(G.pred_settings(n + ns))
    s["max_chol"], s["fpv"], s["skip_var"] = 0, False, False
    s["fc"] = [s["fc"][0], s["fc"][1], True]
    s["train_cg"] = "default"
    case["settings"] = s
    case["cg_limit"] = 1e-4
    case["prior_mode"] = False
    case["second_call"] = draw(st.integers(0, 3)) == 0
    case["torch_seed"] = draw(st.integers(0, 2**31 - 1))
    return case


def run_posterior(case, ctx: Ctx):
    s = case["settings"]
    kdesc = kern.describe(case["kernel"])
    ctx.cls = f"{case['lik']['l']}{'+' if case['lik'].get('learn') else ''}|mb{case['mb']}|xb{case['xb']}|tb{case['tb']}|{'iter' if G.is_iterative(s) else 'chol'}"
    X, y, Xs = T(case["X"]), T(case["y"]), T(case["Xs"])
    n, ns = case["n"], case["ns"]
    with ctx.observing("build"):
        model, lik = G.build_exact(case)
        model.eval()
        lik.eval()
    # ---- oracle: conditional of the model's own prior (eager block evaluation), noise from the recipe
    with ctx.observing("own_prior"):
        Kxx, Kxs, Kss, mx, ms = G.own_prior_blocks(model, X, Xs)
    bshape = torch.broadcast_shapes(torch.Size(case["mb"]), torch.Size(case["xb"]), torch.Size(case["tb"]))
    sdiag = G.ref_noise_diag(case["lik"], n, bshape)
    kmax = 1e5 if G.is_iterative(s) else 1e8
    mean_w, cov_w, kappa, A = G.dense_conditional(Kxx, Kxs, Kss, mx, ms, sdiag, y, kappa_max=kmax)
    if G.uses_lanczos(s):
        # LOVE with one random start vector spans the whole space only if the eigenvalues of Kxx+S are distinct
        # ("full-rank" in the property), and plain Lanczos loses accuracy with the dynamic range of the spectrum.
        ev = torch.linalg.eigvalsh(A)
        gap = float(((ev[..., 1:] - ev[..., :-1]) / ev[..., -1:]).min()) if A.shape[-1] > 1 else 1.0
        if gap < 1e-3 or kappa > 1e4:
            raise Discard("lanczos path: clustered spectrum (relative gap < 1e-3) or kappa > 1e4")
    elif G.is_iterative(s) and case.get("cg_limit"):
        # systems on which CG needs many iterations: the dependency's CG has an accuracy floor of ~1e-5 (relative to the largest entry
        # of the solution) there.  Calibrate each of the two solves at cg_limit and compare at the error that limit implies.
        r1, r2 = (y - mx).expand(*A.shape[:-1]).unsqueeze(-1), Kxs.expand(*A.shape[:-2], n, ns)
        G.cg_calibration(A, r1, s, limit=case["cg_limit"])
        G.cg_calibration(A, r2, s, limit=case["cg_limit"])
        amp = float(Kxs.abs().sum(-2).max()) * max(float(torch.linalg.solve(A, r1).abs().max()), float(torch.linalg.solve(A, r2).abs().max()))
        cg_tol = 10 * case["cg_limit"] * amp
    elif G.is_iterative(s):
        G.cg_calibration(A, torch.cat([(y - mx).expand(*A.shape[:-1]).unsqueeze(-1), Kxs.expand(*A.shape[:-2], n, ns)], -1), s)
    mean_w = mean_w.expand(*bshape, ns)
    cov_w = cov_w.expand(*bshape, ns, ns)
    if G.uses_lanczos(s):
        rtol = atol = 2e-3
    elif G.is_iterative(s) and case.get("cg_limit"):
        rtol, atol = 1e-4, max(1e-5, cg_tol)
    elif G.is_iterative(s):
        rtol, atol = 1e-4, 1e-5
    else:
        rtol = atol = G.chol_tol(kappa, kern.smooth_at_zero(case["kernel"]))
    if kern._contains(case["kernel"], "Prod") and kern._contains(case["kernel"], "Linear"):
        # a product kernel with a LinearKernel factor is evaluated as MulLinearOperator(root, root): the dependency takes root
        # decompositions of the factors (Cholesky with its 1e-8 .. 1e-6 jitter on rank-deficient factors, Lanczos above
        # max_cholesky_size), so the kernel matrix itself depends on the settings at that level
        floor = 2e-3 if (s["max_chol"] == 0 and s["fc"][0]) else 1e-6
        rtol, atol = max(rtol, floor), max(atol, floor)
    scale = max(1.0, float(cov_w.abs().max()), float(mean_w.abs().max()))

    test_noise = case.get("test_noise")
    with ctx.observing("predict"):
        torch.manual_seed(case["torch_seed"])
        with G.settings_ctx(s), torch.no_grad():
            if case["prior_mode"]:
                with S.prior_mode(True):
                    outp = model(Xs)
                    pm, pc = outp.mean, outp.covariance_matrix
            if case["second_call"]:
                model(Xs[..., :1, :])
            out = model(Xs)
            gm = out.mean
            gc = out.covariance_matrix
            gv = out.variance
            if test_noise is not None:
                pred = lik(out, noise=T(test_noise))
            else:
                pred = lik(out)
            pmn, pcv = pred.mean, pred.covariance_matrix
    if case.get("cg_limit"):
        # cg_tolerance is the tolerance of *training* solves: a prediction (every solve of which runs at eval_cg_tolerance) must not
        # depend on it.  Same model, fresh instance, cg_tolerance tight: identical computation, identical result.
        with ctx.observing("predict.tight_train_cg"):
            model2, lik2 = G.build_exact(case)
            model2.eval()
            lik2.eval()
            with G.settings_ctx({**s, "train_cg": "tight"}), torch.no_grad():
                out2 = model2(Xs)
                gm2, gc2 = out2.mean, out2.covariance_matrix
        ctx.close("train_cg_invariance.mean", gm, gm2, rtol=1e-7, atol=1e-7, scale=scale)
        ctx.close("train_cg_invariance.cov", gc, gc2, rtol=1e-7, atol=1e-7, scale=scale)
    if case["prior_mode"]:
        prod_root = kern._contains(case["kernel"], "Prod") and kern._contains(case["kernel"], "Linear")
        ctx.close("prior_mode.mean", pm, ms.expand(*bshape, ns), rtol=1e-9, atol=1e-11)
        ctx.close("prior_mode.cov", pc, Kss.expand(*bshape, ns, ns), rtol=rtol if prod_root else 1e-9, atol=atol if prod_root else 1e-11,
                  scale=scale if prod_root else None)
    ctx.close("mean", gm, mean_w, rtol=rtol, atol=atol, scale=scale)
    if s["skip_var"]:
        ctx.close("skipped.cov_is_zero", gc, torch.zeros_like(cov_w), rtol=0, atol=0)
        noise_w = torch.diag_embed(G.ref_noise_diag(case["lik"], ns, bshape, test_noise=test_noise if test_noise is not None else None))
        ctx.close("likelihood.mean", pmn, gm, rtol=0, atol=0)
        # (zero operator + noise operator) may come back with the noise operator's own, broadcastable, batch shape
        try:
            pcv = pcv.expand(*bshape, ns, ns)
        except RuntimeError:
            pass
        ctx.close("likelihood.noise", pcv, noise_w.expand(*bshape, ns, ns), rtol=1e-9, atol=1e-11)
    else:
        ctx.close("cov", gc, cov_w, rtol=rtol, atol=atol, scale=scale)
        minv = S.min_variance.value(gc.dtype)
        ctx.close("variance", gv, cov_w.diagonal(dim1=-1, dim2=-2).clamp_min(minv), rtol=rtol, atol=atol, scale=scale)
        noise_w = torch.diag_embed(G.ref_noise_diag(case["lik"], ns, bshape, test_noise=test_noise))
        ctx.close("likelihood.mean", pmn, gm, rtol=0, atol=0)
        ctx.close("likelihood.noise", pcv - gc, noise_w.expand(*bshape, ns, ns), rtol=1e-9, atol=1e-9, scale=scale)
    moved = float((mean_w - ms.expand(*bshape, ns)).abs().max()) > 1e-3 * scale
    nondefault = s != G.default_settings()
    ctx.set_nontrivial(n >= 2 and ns >= 2 and moved and (nondefault or bool(case["mb"]) or bool(case["tb"]) or kern.is_composite(case["kernel"])))
    ctx.label(G.settings_label(s).split(",")[2], f"chol={s['max_chol']}", f"fpv={int(s['fpv'])}", f"lazy={int(s['lazy'])}",
              f"eager={s['eager_size'] if s['eager_size'] in (0, 512) else 'edge'}", f"det={int(s['detach'])}", f"skip={int(s['skip_var'])}",
              f"lik={case['lik']['l']}{'+' if case['lik'].get('learn') else ''}", f"mb={case['mb']}", f"xb={case['xb']}", f"tb={case['tb']}",
              f"iter={G.is_iterative(s)}", f"prior_mode={case['prior_mode']}",
              *{f"leaf={l['k']}" for l in kern.leaves(case["kernel"])})


# ---------------------------------------------------------------------------------------------------
# Kronecker multitask models
# ---------------------------------------------------------------------------------------------------
@st.composite
def multitask_posterior_case(draw):
    case = draw(MT.multitask_case())
    case["settings"] = draw(G.pred_settings((case["n"] + case["ns"]) * case["t"]))
    if case["settings"]["max_chol"] == 0 and draw(st.integers(0, 9)) != 0:
        case["settings"]["max_chol"] = 800  # the cell above max_cholesky_size is a known dependency finding: keep it thin
    case["torch_seed"] = draw(st.integers(0, 2**31 - 1))
    return case


def run_multitask(case, ctx: Ctx):
    s = case["settings"]
    t, n, ns = case["t"], case["n"], case["ns"]
    big = n * t > s["max_chol"]
    ctx.cls = (f"multitask|{MT.cell(case)}|tb{case['tb']}|{'iter' if G.is_iterative(s) else 'chol'}|fpv{int(s['fpv'])}"
               f"|{'gt_maxchol' if big else 'le_maxchol'}")
    X, y, Xs = T(case["X"]), T(case["y"]), T(case["Xs"])
    with ctx.observing("build"):
        model, lik = MT.build_multitask(case)
        model.eval()
        lik.eval()
    with ctx.observing("own_prior"):
        Kxx, Kxs, Kss, mx, ms = G.own_prior_blocks(model, X, Xs)
        mx, ms = mx.reshape(*mx.shape[:-2], -1), ms.reshape(*ms.shape[:-2], -1)
    bshape = torch.Size(case["tb"])
    kmax = 1e5 if G.is_iterative(s) else 1e8
    mean_w, cov_w, kappa, A = G.dense_conditional(Kxx, Kxs, Kss, mx, ms, None, y.reshape(-1), kappa_max=kmax, smat=MT.ref_noise(case, n))
    if G.uses_lanczos(s):
        ev = torch.linalg.eigvalsh(A)
        gap = float(((ev[..., 1:] - ev[..., :-1]) / ev[..., -1:]).min()) if A.shape[-1] > 1 else 1.0
        if gap < 1e-3 or kappa > 1e4:
            raise Discard("lanczos path: clustered spectrum (relative gap < 1e-3) or kappa > 1e4")
        rtol = atol = 2e-3
    elif G.is_iterative(s):
        G.cg_calibration(A, torch.cat([(y.reshape(-1) - mx).expand(*A.shape[:-1]).unsqueeze(-1), Kxs.expand(*A.shape[:-2], n * t, ns * t)], -1), s)
        rtol, atol = 1e-4, 1e-5
    else:
        rtol = atol = G.chol_tol(kappa, kern.smooth_at_zero(case["kernel"]))
    scale = max(1.0, float(cov_w.abs().max()), float(mean_w.abs().max()))
    with ctx.observing("predict"):
        torch.manual_seed(case["torch_seed"])
        with G.settings_ctx(s), torch.no_grad():
            out = model(Xs)
            gm = out.mean
            gc = out.covariance_matrix
            pred = lik(out)
            pmn, pcv = pred.mean, pred.covariance_matrix
    ctx.close("mean", gm, mean_w.reshape(*bshape, ns, t), rtol=rtol, atol=atol, scale=scale)
    noise_w = MT.ref_noise(case, ns).expand(*bshape, ns * t, ns * t)
    ctx.close("likelihood.mean", pmn, gm, rtol=0, atol=0)
    if s["skip_var"]:
        ctx.close("skipped.cov_is_zero", gc, torch.zeros(*bshape, ns * t, ns * t), rtol=0, atol=0)
        try:
            pcv = pcv.expand(*bshape, ns * t, ns * t)
        except RuntimeError:
            pass
        ctx.close("likelihood.noise", pcv, noise_w, rtol=1e-9, atol=1e-11)
    else:
        ctx.close("cov", gc, cov_w.expand(*bshape, ns * t, ns * t), rtol=rtol, atol=atol, scale=scale)
        ctx.close("likelihood.noise", pcv - gc, noise_w, rtol=1e-9, atol=1e-9, scale=scale)
    ctx.set_nontrivial(n >= 2 and ns >= 1)
    ctx.label("multitask", f"t={t}", f"krank={case['task']['rank']}", f"lrank={case['lik']['rank']}", f"global={case['lik']['global']}",
              f"task={case['lik']['task']}", f"iter={G.is_iterative(s)}", f"fpv={int(s['fpv'])}", f"tb={case['tb']}", MT.cell(case))


# ---------------------------------------------------------------------------------------------------
# other multi-output exact models: derivative GPs (RBFKernelGrad / Matern52KernelGrad / PolynomialKernelGrad with ConstantMeanGrad or
# LinearMeanGrad) and LCM kernels - num_outputs_per_input > 1 through ExactGP.__call__ and the default strategy
# ---------------------------------------------------------------------------------------------------
@st.composite
def multioutput_case(draw):
    kind = draw(st.sampled_from(["RBFGrad", "Matern52Grad", "PolyGrad", "LCM"]))
    d = draw(st.integers(1, 2))
    n, ns = draw(st.integers(1, 4)), draw(st.integers(1, 3))
    t = d + 1 if kind != "LCM" else draw(st.integers(2, 3))
    case = {"kind": kind, "d": d, "n": n, "ns": ns, "t": t, "tb": draw(st.sampled_from([[], [], [2]])),
            "ls": draw(kern.arr([1, d], kern.pos(0.5, 3.0))), "ard": draw(st.booleans()), "offset": draw(kern.pos(0.2, 2.0)),
            "mean": draw(st.sampled_from(["ConstantGrad", "LinearGrad", "Zero"])) if kind != "LCM" else "Multitask",
            "const": draw(kern.REAL), "noise": [draw(kern.pos(0.05, 1.0))], "task_noises": draw(kern.arr([t], kern.pos(0.05, 1.0))),
            "X": draw(kern.points(n, d)), "y": draw(kern.arr([n, t], kern.REAL))}
    case["Xs"] = draw(kern.points(ns, d, case["tb"]))
    if kind == "LCM":
        case["members"] = [{"kernel": draw(kern.base_kernel(d, [], names=["RBF", "Matern2.5", "RQ", "Periodic"], allow_ad=False)),
                            "covar_factor": draw(kern.arr([t, 1], kern.REAL)), "var": draw(kern.arr([t], kern.pos(0.05, 2.0)))} for _ in range(draw(st.integers(1, 2)))]
    case["settings"] = draw(G.pred_settings((n + ns) * t))
    case["settings"]["max_chol"] = 800
    case["torch_seed"] = draw(st.integers(0, 2**31 - 1))
    return case


def build_multioutput(case):
    from gpytorch import kernels as K
    from gpytorch import means as M

    t, d = case["t"], case["d"]
    lik = gpytorch.likelihoods.MultitaskGaussianLikelihood(num_tasks=t)
    lik.noise = T(case["noise"])
    lik.task_noises = T(case["task_noises"])
    kind = case["kind"]
    if kind == "LCM":
        covar = K.LCMKernel([kern.build_kernel(m["kernel"]) for m in case["members"]], num_tasks=t, rank=1)
        for mod, m in zip(covar.covar_module_list, case["members"]):
            mod.task_covar_module.initialize(covar_factor=T(m["covar_factor"]))
            mod.task_covar_module.var = T(m["var"])
        mean = M.MultitaskMean(M.ConstantMean(), num_tasks=t)
        for mm in mean.base_means:
            mm.constant = T(case["const"])
    else:
        if kind == "PolyGrad":
            covar = K.PolynomialKernelGrad(power=2)
            covar.offset = T([case["offset"]])
        else:
            cls = K.RBFKernelGrad if kind == "RBFGrad" else K.Matern52KernelGrad
            covar = cls(ard_num_dims=d if case["ard"] else None)
            covar.lengthscale = T(case["ls"]) if case["ard"] else T(case["ls"])[..., :1]
        covar = K.ScaleKernel(covar)
        if case["mean"] == "ConstantGrad":
            mean = M.ConstantMeanGrad()
            mean.initialize(constant=T([case["const"]]))
        elif case["mean"] == "LinearGrad":
            mean = M.LinearMeanGrad(d)
            mean.initialize(weights=torch.full((d, 1), case["const"]), bias=T([0.25]))
        else:
            mean = M.MultitaskMean(M.ZeroMean(), num_tasks=t)
    model = G.RecipeMultitaskGP(T(case["X"]), T(case["y"]), lik, mean, covar)
    return model, lik


def run_multioutput(case, ctx: Ctx):
    s = case["settings"]
    t, n, ns = case["t"], case["n"], case["ns"]
    ctx.cls = f"{case['kind']}|{case['mean']}|tb{case['tb']}|fpv{int(s['fpv'])}"
    X, y, Xs = T(case["X"]), T(case["y"]), T(case["Xs"])
    with ctx.observing("build"):
        model, lik = build_multioutput(case)
        model.eval()
        lik.eval()
    with ctx.observing("own_prior"):
        # derivative kernels document x1 and x2 with a common batch shape (ExactGP expands the training inputs itself)
        Kxx, Kxs, Kss, mx, ms = G.own_prior_blocks(model, X.expand(*case["tb"], n, case["d"]), Xs)
        mx, ms = mx.reshape(*mx.shape[:-2], -1), ms.reshape(*ms.shape[:-2], -1)
    bshape = torch.Size(case["tb"])
    D = torch.diag(T(case["task_noises"])) + case["noise"][0] * torch.eye(t)
    mean_w, cov_w, kappa, A = G.dense_conditional(Kxx, Kxs, Kss, mx, ms, None, y.reshape(-1), smat=MT.kron(torch.eye(n), D))
    rtol = atol = max(G.chol_tol(kappa, case["kind"] != "Matern52Grad"), 1e-9)
    scale = max(1.0, float(cov_w.abs().max()), float(mean_w.abs().max()))
    with ctx.observing("predict"):
        torch.manual_seed(case["torch_seed"])
        with G.settings_ctx(s), torch.no_grad():
            out = model(Xs)
            gm, gc = out.mean, out.covariance_matrix
            pred = lik(out)
            pcv = pred.covariance_matrix
    ctx.close("mean", gm, mean_w.reshape(*bshape, ns, t), rtol=rtol, atol=atol, scale=scale)
    if s["skip_var"]:
        ctx.close("skipped.cov_is_zero", gc, torch.zeros(*bshape, ns * t, ns * t), rtol=0, atol=0)
    else:
        ctx.close("cov", gc, cov_w.expand(*bshape, ns * t, ns * t), rtol=rtol, atol=atol, scale=scale)
        ctx.close("likelihood.noise", pcv - gc, MT.kron(torch.eye(ns), D).expand(*bshape, ns * t, ns * t), rtol=1e-9, atol=1e-9, scale=scale)
    ctx.set_nontrivial(n >= 2)
    ctx.label(f"multioutput={case['kind']}", f"mo.mean={case['mean']}", f"mo.tb={case['tb']}", f"mo.fpv={int(s['fpv'])}")


RULE = ("exact-GP recipe (mean in {Zero, Constant, Linear}; kernel expression tree of depth <= 2 over 18 kernel variants with ARD / "
        "active_dims / batch; likelihood in {Gaussian, FixedNoise, FixedNoise + learned}) x data (n <= 6, n* <= 4, d <= 3; model / train / "
        "test batch shapes from the broadcastable patterns) x one point of the settings product (lazy, eager threshold at/below/above, "
        "fast_computations^3, max_cholesky_size, fast_pred_var, detach_test_caches, skip_posterior_variances, preconditioner), "
        "iterative paths at tolerance 1e-12 / full rank. Non-trivial: n >= 2, n* >= 2, posterior mean differs from the prior mean by "
        "> 1e-3*scale, and (non-default settings or batch or composite kernel); distinct = distinct canonical case.")

SUBCHECKS = [
    Subcheck("exact.posterior", run_posterior, strategy=posterior_case, quick=1600, thorough=50000, min_shard=50),
    Subcheck("exact.cg_larger", run_posterior, strategy=cg_larger_case, quick=300, thorough=6000, min_shard=30),
    Subcheck("exact.multitask", run_multitask, strategy=multitask_posterior_case, quick=600, thorough=20000, min_shard=40),
    Subcheck("exact.multioutput", run_multioutput, strategy=multioutput_case, quick=300, thorough=15000, min_shard=40),
]

SPEC = PropertySpec(
    pid="C01",
    rule=RULE,
    assumptions=[
        "float64, CPU; K and m are the model's own kernel/mean evaluated eagerly block by block (the property's wording); "
        "S is built from the likelihood recipe",
        "cases with cond(Kxx+S) > 1e8 (1e5 on iterative paths) are discarded and counted",
        "iterative paths: cg/eval_cg tolerance 1e-12, max_cg_iterations 2000, max_root_decomposition_size 200 (full rank)",
    ],
    subchecks=SUBCHECKS,
)

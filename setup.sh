#!/bin/bash
# MANIFEST.setup_cmd: make sure hypothesis is importable in /venv (offline, from the wheelhouse).
set -e
if ! /venv/bin/python -c "import hypothesis" 2>/dev/null; then
  PIP_NO_INDEX=1 /venv/bin/pip install --no-index --find-links /opt/veriftools/wheels hypothesis
fi
/venv/bin/python -c "import hypothesis, torch, scipy, numpy; print('setup ok: hypothesis', hypothesis.__version__)"
